//go:build verif

// Trusted library contracts (standard library functions called by functions under contract).
package lib

//@ lib func slices.Contains(s []rune, v rune) (r bool)
//@   pure
//@   ensures r == (exists q int :: 0 <= q && q < len(s) && s[q] == v)

//@ lib func slices.Index(s []rune, v rune) (r int)
//@   pure
//@   ensures -1 <= r && r < len(s)
//@   ensures r >= 0 ==> s[r] == v
//@   ensures forall p int :: 0 <= p && p < len(s) && (r < 0 || p < r) ==> s[p] != v

//@ lib func unicode.ToLower(r rune) (l rune)
//@   pure
//@ lib func unicode.ToUpper(r rune) (l rune)
//@   pure
//@ lib func unicode.IsSpace(r rune) (b bool)
//@   pure
//@ lib func unicode.IsPrint(r rune) (b bool)
//@   pure
//@ lib func unicode.IsDigit(r rune) (b bool)
//@   pure
//@ lib func unicode.IsLetter(r rune) (b bool)
//@   pure

// unicode/utf8 (trusted: transcribed from the package documentation / source)
//@ spec func RuneLenSpec(r rune) int = ite(r < 0, -1, ite(r < 128, 1, ite(r < 2048, 2, ite(55296 <= r && r <= 57343, -1, ite(r <= 65535, 3, ite(r <= 1114111, 4, -1))))))
//@ lib func utf8.RuneLen(r rune) (n int)
//@   pure
//@   ensures n == RuneLenSpec(r)

//@ lib func errors.New(text string) (e error)
//@   ensures e != nil
//@ lib func fmt.Errorf(format string, a []any) (e error)
//@   ensures e != nil

//@ lib func unicode.Is(rangeTab *unicode.RangeTable, r rune) (b bool)
//@   pure
//@   requires rangeTab != nil

//@ lib func strconv.Itoa(i int) (s string)
//@   pure

// bytes.Buffer as an output sequence: ghost fields $out (the runes written so far) and $n (how many).
// WriteString is specified for ASCII strings only; other strings just extend the output.
//@ ghostfield bytes.Buffer.$out [0]rune
//@ ghostfield bytes.Buffer.$n int
//@ spec func AsciiStr(s string) bool = forall i int :: 0 <= i && i < len(s) ==> s[i] < 128
//@ lib func (b *bytes.Buffer) WriteRune(r rune) (n int, err error)
//@   requires b != nil
//@   modifies b.$n, b.$out[*]
//@   ensures b.$n == old(b.$n) + 1 && b.$out[old(b.$n)] == r
//@   ensures forall k int :: 0 <= k && k < old(b.$n) ==> b.$out[k] == old(b.$out[k])
//@ lib func (b *bytes.Buffer) WriteString(s string) (n int, err error)
//@   requires b != nil
//@   modifies b.$n, b.$out[*]
//@   ensures b.$n >= old(b.$n)
//@   ensures forall k int :: 0 <= k && k < old(b.$n) ==> b.$out[k] == old(b.$out[k])
//@   ensures AsciiStr(s) ==> b.$n == old(b.$n) + len(s) && forall i int :: 0 <= i && i < len(s) ==> b.$out[old(b.$n) + i] == s[i]
//@   ensures[first8] AsciiStr(s) ==> (len(s) > 0 ==> b.$out[old(b.$n)] == s[0]) && (len(s) > 1 ==> b.$out[old(b.$n)+1] == s[1]) && (len(s) > 2 ==> b.$out[old(b.$n)+2] == s[2]) &&
//@             (len(s) > 3 ==> b.$out[old(b.$n)+3] == s[3]) && (len(s) > 4 ==> b.$out[old(b.$n)+4] == s[4]) && (len(s) > 5 ==> b.$out[old(b.$n)+5] == s[5]) &&
//@             (len(s) > 6 ==> b.$out[old(b.$n)+6] == s[6]) && (len(s) > 7 ==> b.$out[old(b.$n)+7] == s[7])

//@ lib func strings.ContainsRune(s string, r rune) (b bool)
//@   pure
//@   ensures AsciiStr(s) ==> (b == (exists i int :: 0 <= i && i < len(s) && s[i] == r))

// strconv.FormatInt(v, 16) for 0 <= v < 16^6: minimal-length lower-case hexadecimal
//@ spec func HexLen(v int) int = ite(v < 16, 1, ite(v < 256, 2, ite(v < 4096, 3, ite(v < 65536, 4, ite(v < 1048576, 5, 6)))))
//@ spec func NibbleAt(v int, k int) int = ite(k == 0, v % 16, ite(k == 1, (v / 16) % 16, ite(k == 2, (v / 256) % 16, ite(k == 3, (v / 4096) % 16, ite(k == 4, (v / 65536) % 16, (v / 1048576) % 16)))))
//@ spec func HexDigitCh(d int) int = ite(d < 10, 48 + d, 87 + d)
//@ lib func strconv.FormatInt(i int64, base int) (s string)
//@   pure
//@   ensures base == 16 && 0 <= i && i < 16777216 ==> AsciiStr(s) && len(s) == HexLen(i) && forall k int :: 0 <= k && k < len(s) ==> s[k] == HexDigitCh(NibbleAt(i, len(s) - 1 - k))
//@   ensures[digits] base == 16 && 0 <= i && i < 16777216 ==> (len(s) > 0 ==> s[0] == HexDigitCh(NibbleAt(i, len(s) - 1))) && (len(s) > 1 ==> s[1] == HexDigitCh(NibbleAt(i, len(s) - 2))) &&
//@             (len(s) > 2 ==> s[2] == HexDigitCh(NibbleAt(i, len(s) - 3))) && (len(s) > 3 ==> s[3] == HexDigitCh(NibbleAt(i, len(s) - 4))) &&
//@             (len(s) > 4 ==> s[4] == HexDigitCh(NibbleAt(i, len(s) - 5))) && (len(s) > 5 ==> s[5] == HexDigitCh(NibbleAt(i, len(s) - 6)))

// ---------------------------------------------------------------------------------------------
// Trusted UTF-8 decode spec for strings: `for i, ch := range s`, []rune(s) and utf8.DecodeRuneInString all
// segment s the same way. RuneStart(s,k) is the byte offset of the k-th rune, RuneCount(s) the number of runes;
// runeat/widthat are the rune decoded at a byte offset and its width (1..4, 1 for an invalid byte -> U+FFFD).
// ---------------------------------------------------------------------------------------------
//@ ghost func RuneCount(s string) int
//@ ghost func RuneStart(s string, k int) int
//@ axiom runestart-0: forall s string {RuneCount(s)} :: RuneStart(s, 0) == 0 && 0 <= RuneCount(s) && RuneCount(s) <= len(s) && RuneStart(s, RuneCount(s)) == len(s)
//@ axiom runestart-step: forall s string, k int {RuneStart(s, k)} :: 0 <= k && k < RuneCount(s) ==> RuneStart(s, k+1) == RuneStart(s, k) + widthat(s, RuneStart(s, k)) && RuneStart(s, k) < len(s) && k <= RuneStart(s, k)
// strict monotonicity makes RuneStart injective on 0..RuneCount(s); RuneIdxAt is its inverse there (a definitional
// extension: it exists whenever runestart-mono holds), which gives injectivity with a single-term trigger
//@ ghost func RuneIdxAt(s string, b int) int
//@ axiom runestart-inv: forall s string, k int {RuneStart(s, k)} :: 0 <= k && k <= RuneCount(s) ==> RuneIdxAt(s, RuneStart(s, k)) == k
//@ axiom runestart-mono: forall s string, j int, k int {RuneStart(s, j), RuneStart(s, k)} :: 0 <= j && j < k && k <= RuneCount(s) ==> RuneStart(s, j) < RuneStart(s, k)
// the k-th rune of s
//@ spec func RuneAtIdx(s string, k int) rune = runeat(s, RuneStart(s, k))
// r holds exactly the decoded runes of s
//@ spec func DecodeOf(r []rune, s string) bool = len(r) == RuneCount(s) && forall k int {r[k]} :: 0 <= k && k < len(r) ==> r[k] == RuneAtIdx(s, k)
// rune index of a byte offset that is a rune boundary (or the end), -1 otherwise
//@ spec func IsRuneIndexOf(s string, b int, k int) bool = (k >= 0 ==> k <= RuneCount(s) && RuneStart(s, k) == b) && (k < 0 ==> forall j int :: 0 <= j && j <= RuneCount(s) ==> RuneStart(s, j) != b)

//@ lib func utf8.DecodeRuneInString(s string) (r rune, size int)
//@   pure
//@   ensures len(s) > 0 ==> r == runeat(s, 0) && size == widthat(s, 0)
//@   ensures len(s) == 0 ==> r == 65533 && size == 0

//@ lib func (b *bytes.Buffer) Reset()
//@   requires b != nil
//@   modifies b.$n
//@   ensures b.$n == 0
// String(): the ghost output sequence is the decoding of the content. Trusted reading of the model: everything written
// is ASCII, a rune (WriteRune) or a whole UTF-8 sequence, so writes never merge into one rune; a position whose ghost
// rune is printable (hence a valid scalar value) decodes to that rune.
//@ lib func (b *bytes.Buffer) String() (s string)
//@   requires b != nil
//@   ensures[count] RuneCount(s) == b.$n
//@   ensures[runes] forall k int {RuneAtIdx(s, k)} :: 0 <= k && k < b.$n && unicode.IsPrint(b.$out[k]) ==> RuneAtIdx(s, k) == b.$out[k]
//@ lib func (b *bytes.Buffer) Len() (n int)
//@   requires b != nil
//@   ensures n >= 0

// strings.IndexByte: first index of the byte, or -1
//@ lib func strings.IndexByte(s string, c byte) (i int)
//@   pure
//@   ensures -1 <= i && i < len(s)
//@   ensures i >= 0 ==> s[i] == c
//@   ensures forall k int :: 0 <= k && k < len(s) && (i < 0 || k < i) ==> s[k] != c

// ---- byte-level substring search and backward decoding (string prefix filters) ----
// lit occurs in s at byte offset i
//@ spec func SubAt(s string, i int, lit string) bool = 0 <= i && i + len(lit) <= len(s) && forall j int {lit[j]} :: 0 <= j && j < len(lit) ==> s[i+j] == lit[j]
//@ lib func strings.Index(s string, substr string) (r int)
//@   pure
//@   ensures[range] r == -1 || SubAt(s, r, substr)
//@   ensures[first] forall k int {mark(k)} {s[k]} :: 0 <= k && (r < 0 || k < r) ==> !SubAt(s, k, substr)
// PrevStart(s, i): start of the rune that ends at byte i when s is decoded backwards from i (0 < i <= len(s)); it looks
// at the bytes before i only
//@ ghost func PrevStart(s string, i int) int
//@ axiom prevstart-range:  forall s string, i int {PrevStart(s, i)} :: 0 < i && i <= len(s) ==> i - 4 <= PrevStart(s, i) && PrevStart(s, i) < i && 0 <= PrevStart(s, i)
//@ axiom prevstart-prefix: forall s string, i int {PrevStart(s[:i], i)} :: 0 < i && i <= len(s) ==> PrevStart(s[:i], i) == PrevStart(s, i)
//@ lib func utf8.DecodeLastRuneInString(s string) (r rune, size int)
//@   pure
//@   ensures len(s) == 0 ==> size == 0
//@   ensures len(s) > 0 ==> size == len(s) - PrevStart(s, len(s)) && 1 <= size && size <= 4
// Back(s, i, n): byte offset reached from i by stepping n runes backwards
//@ ghost func Back(s string, i int, n int) int
//@ axiom back-0:    forall s string, i int {Back(s, i, 0)} :: Back(s, i, 0) == i
//@ axiom back-step: forall s string, i int, n int {Back(s, i, n)} :: 0 <= n && 0 < Back(s, i, n) && Back(s, i, n) <= len(s) ==> Back(s, i, n + 1) == PrevStart(s, Back(s, i, n))

// EncAt(s, i, ch): the UTF-8 encoding of ch (for utf8.RuneError: an invalid byte) starts at byte i of s. Abstract; what is
// assumed of it: it is about the bytes from i on, and an encoding never starts inside the rune decoded at an occurrence.
//@ ghost func EncAt(s string, i int, ch rune) bool
//@ axiom encat-suffix:  forall s string, a int, k int, ch rune {EncAt(s[a:], k, ch)} :: 0 <= a && a <= len(s) && 0 <= k ==> EncAt(s[a:], k, ch) == EncAt(s, a + k, ch)
//@ axiom encat-suffix2: forall s string, a int, k int, ch rune {s[a:], EncAt(s, k, ch)} :: 0 <= a && a <= k && a <= len(s) ==> EncAt(s[a:], k - a, ch) == EncAt(s, k, ch)
//@ axiom encat-inside:  forall s string, i int, k int, ch rune {EncAt(s, i, ch), EncAt(s, k, ch)} :: EncAt(s, i, ch) && 0 <= i && i < k && k < i + widthat(s, i) ==> !EncAt(s, k, ch)
//@ lib func strings.IndexRune(s string, ch rune) (r int)
//@   pure
//@   ensures[range] r == -1 || (0 <= r && r < len(s) && EncAt(s, r, ch))
//@   ensures[first] forall k int {EncAt(s, k, ch)} :: 0 <= k && (r < 0 || k < r) ==> !EncAt(s, k, ch)

// strings.IndexAny with an ASCII character list: first byte of s that equals one of the listed bytes
//@ spec func ByteIn(chars string, b byte) bool = exists q int {chars[q]} :: 0 <= q && q < len(chars) && chars[q] == b
//@ lib func strings.IndexAny(s string, chars string) (r int)
//@   pure
//@   ensures[range] AsciiStr(chars) ==> -1 <= r && r < len(s) && (r >= 0 ==> ByteIn(chars, s[r]))
//@   ensures[first] AsciiStr(chars) ==> forall k int {s[k]} :: 0 <= k && k < len(s) && (r < 0 || k < r) ==> !ByteIn(chars, s[k])

//@ lib func strings.HasPrefix(s string, prefix string) (b bool)
//@   pure
//@   ensures b == SubAt(s, 0, prefix)

//@ lib func bytes.NewBufferString(s string) (b *bytes.Buffer)
//@   ensures b != nil && fresh(b) && b.$n >= 0

// sort.Search: only the range of the result is stated here (and that the search itself writes nothing: the predicates
// handed to it in this code base are read-only closures); what it means for a particular predicate is stated (as an
// assumption) where it is called
//@ lib func sort.Search(n int, f func(int) bool) (found int)
//@   pure
//@   ensures 0 <= found && (n >= 0 ==> found <= n) && (n < 0 ==> found == 0)
