//go:build verif

// Trusted library contracts (standard library functions called by functions under contract).
package lib

//@ lib func slices.Contains(s []rune, v rune) (r bool)
//@   pure
//@   ensures r == (exists q int :: 0 <= q && q < len(s) && s[q] == v)

//@ lib func slices.Index(s []rune, v rune) (r int)
//@   pure
//@   ensures -1 <= r && r < len(s)
//@   ensures r >= 0 ==> s[r] == v
//@   ensures forall p int :: 0 <= p && p < len(s) && (r < 0 || p < r) ==> s[p] != v

//@ lib func unicode.ToLower(r rune) (l rune)
//@   pure
//@ lib func unicode.ToUpper(r rune) (l rune)
//@   pure
//@ lib func unicode.IsSpace(r rune) (b bool)
//@   pure
//@ lib func unicode.IsPrint(r rune) (b bool)
//@   pure
//@ lib func unicode.IsDigit(r rune) (b bool)
//@   pure
//@ lib func unicode.IsLetter(r rune) (b bool)
//@   pure

// unicode/utf8 (trusted: transcribed from the package documentation / source)
//@ spec func RuneLenSpec(r rune) int = ite(r < 0, -1, ite(r < 128, 1, ite(r < 2048, 2, ite(55296 <= r && r <= 57343, -1, ite(r <= 65535, 3, ite(r <= 1114111, 4, -1))))))
//@ lib func utf8.RuneLen(r rune) (n int)
//@   pure
//@   ensures n == RuneLenSpec(r)

//@ lib func errors.New(text string) (e error)
//@   ensures e != nil
//@ lib func fmt.Errorf(format string, a []any) (e error)
//@   ensures e != nil

//@ lib func unicode.Is(rangeTab *unicode.RangeTable, r rune) (b bool)
//@   pure
//@   requires rangeTab != nil

//@ lib func strconv.Itoa(i int) (s string)
//@   pure
