//go:build verif

// Trusted library contracts (standard library functions called by functions under contract).
package lib
