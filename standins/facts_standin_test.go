package regexp2

// Bounded stand-in for what the contracts of C03/C04 ASSUME rather than prove:
//   - "the facts the analyzers publish hold at every position where an attempt succeeds" (PosFacts / ModeFacts, assumed
//     at every call of scan; the analyzers in syntax/prefixanalyzer.go, syntax/prefix.go, syntax/optimizations.go and
//     the length computation in syntax/tree.go are outside the verifier's reach),
//   - "the candidate finder never skips such a position" (FindFirstCharSpec; four finders enter the proved dispatcher
//     as stated assumptions),
//   - "a failed attempt leaves the scan position where no match is skipped" (the bump-along opcode) and the raw-string
//     prefix filters in front of the string API.
// For every pattern of a small grammar (plus hand-picked shapes that exercise each analyzer), several option sets and
// every text over a small alphabet up to a length bound, the ground truth M(p) = "the interpreter, started at p,
// matches" is computed for every p by running the real interpreter directly (no finder, no length cut), and then:
//   F-min     M(p) => the remaining text is at least MinRequiredLength long (to the left for right-to-left)
//   F-max     M(p) => the match is at most MaxPossibleLength long when one is published
//   F-anchor  M(p) => p (or the end of the match) is where the published leading/trailing anchors put it
//   F-prefix  M(p) => the published leading prefix / one of the published prefixes is at p
//   F-fixed   M(p) => the published fixed-distance literal and every published fixed-distance set hold at p+distance
//   F-bm      M(p) => the Boyer-Moore prefix matches at p
//   F-fc      M(p) => the first character is in the published first-character set
//   F-skip    the finder started at any q returns a position r with no M in [q, r) (mirrored for right-to-left); when it
//             reports "not found" there is no M at r either (scan goes on from the position after r, or stops at the end)
//   F-iter    the FindNextMatch sequence is ordered and disjoint, ends, and each step equals an independent search
//             from the end of the previous match (one further after an empty match)
//   F-e2e     for every start offset the rune API and the string API return exactly the match (position, length, every
//             capture of every group) of the naive scan: attempt at every position in scan order, first success wins
// Labelled "bounded" in the evidence; never counted as proved.

import (
	"fmt"
	"os"
	"runtime"
	"strconv"
	"strings"
	"sync"
	"testing"
	"unicode"

	"github.com/dlclark/regexp2/v2/syntax"
)

func factsEnvInt(name string, def int) int {
	if v, err := strconv.Atoi(os.Getenv(name)); err == nil && v >= 0 {
		return v
	}
	return def
}

func factsWords(alpha []rune, maxLen int, f func([]rune)) {
	var rec func(cur []rune)
	rec = func(cur []rune) {
		f(cur)
		if len(cur) == maxLen {
			return
		}
		for _, a := range alpha {
			rec(append(cur, a))
		}
	}
	rec(make([]rune, 0, maxLen))
}

type factsAttemptResult struct {
	ok       bool
	index    int
	length   int
	captures string
}

func factsSignature(m *Match) string {
	var sb strings.Builder
	for _, g := range m.Groups() {
		sb.WriteString(g.Name)
		sb.WriteByte(':')
		for _, c := range g.Captures {
			fmt.Fprintf(&sb, "%d+%d,", c.RuneIndex, c.RuneLength)
		}
		sb.WriteByte(';')
	}
	return sb.String()
}

// one attempt of the interpreter at position p (what scan does after a candidate has been found)
func factsAttempt(r *Runner, rt []rune, origin, p int, wantCaptures bool) (res factsAttemptResult, panicked any) {
	defer func() {
		if x := recover(); x != nil {
			panicked = x
		}
	}()
	r.ignoreTimeout = true
	r.Runtextstart = origin
	r.Runtext = rt
	r.Runtextend = len(rt)
	r.Runtextpos = p
	r.initMatch(nil)
	if err := executeDefault(r); err != nil {
		return res, fmt.Sprint("error: ", err)
	}
	if r.runmatch.matchcount[0] > 0 {
		res.ok = true
		if wantCaptures {
			m := r.tidyMatch(false)
			res.index, res.length = m.RuneIndex, m.RuneLength
			res.captures = factsSignature(m)
		} else {
			m := r.tidyMatch(true)
			res.index, res.length = m.RuneIndex, m.RuneLength
		}
	} else {
		r.tidyMatch(true)
	}
	r.Runtrackpos = len(r.runtrack)
	r.Runstackpos = len(r.runstack)
	r.runcrawlpos = len(r.runcrawl)
	return res, nil
}

func factsFind(r *Runner, rt []rune, origin, q int) (found bool, pos int, panicked any) {
	defer func() {
		if x := recover(); x != nil {
			panicked = x
		}
	}()
	r.Runtextstart = origin
	r.Runtext = rt
	r.Runtextend = len(rt)
	r.Runtextpos = q
	found = findFirstCharDefault(r)
	return found, r.Runtextpos, nil
}

func factsItems(atoms, quants []string) []string {
	var items []string
	for _, a := range atoms {
		for _, q := range quants {
			items = append(items, a+q)
		}
	}
	return items
}

type factsPat struct {
	pat   string
	extra bool // hand-picked: also sees the second alphabet
	long  bool // large fixed counts: sees the long texts only
}

func factsPatterns(level int) []factsPat {
	core := []string{"a", "b", "[ab]", "[^a]", ".", `\w`, "-", `\d`}
	// the one- and two-item sequences and the alternations also use a wider set of atoms
	atoms := append(append([]string(nil), core...), "[^ab]", `\W`, `\s`, "[a-]", "(?:ab)", "(?:a|-)", `\b`, "1", "(?i:a)", `[\w-[a]]`)
	basicQ := []string{"", "*", "+", "?"}
	fullQ := []string{"", "*", "+", "?", "*?", "+?", "{2}", "{1,2}"}
	basic := factsItems(atoms, basicQ)
	full := factsItems(atoms, fullQ)
	small := factsItems([]string{"a", "[ab]", "[^a]", ".", "-"}, basicQ)
	tiny := factsItems([]string{"a", "[ab]", "-"}, basicQ)
	seen := map[string]bool{}
	var out []factsPat
	add := func(p string) {
		if !seen[p] {
			seen[p] = true
			out = append(out, factsPat{p, false, false})
		}
	}
	for _, x := range full {
		add(x)
	}
	for _, x := range full {
		for _, y := range full {
			add(x + y)
		}
	}
	triples := small
	if level >= 2 {
		triples = factsItems(core, basicQ)
	}
	for _, x := range triples {
		for _, y := range triples {
			for _, z := range triples {
				add(x + y + z)
			}
		}
	}
	for _, l := range []string{"ab", "ba", "a-", "aa", "a1"} {
		for _, x := range full {
			add(l + x)
			add(x + l)
		}
	}
	// alternations
	for _, x := range basic {
		for _, y := range basic {
			add(x + "|" + y)
		}
	}
	alt3 := tiny
	if level >= 2 {
		alt3 = small
	}
	for _, x := range alt3 {
		for _, y := range alt3 {
			for _, z := range alt3 {
				add(x + y + "|" + z)
				add("(?:" + x + "|" + y + ")" + z)
				add(x + "(?:" + y + "|" + z + ")")
			}
		}
	}
	// groups, captures, anchors, lookarounds, backreferences
	for _, x := range small {
		for _, y := range small {
			for _, q := range []string{"*", "+", "?", "{2}", "*?"} {
				add("(?:" + x + y + ")" + q)
			}
			add("(" + x + ")" + y)
			add("(" + x + ")*" + y)
			add("(" + x + ")+" + y)
			add("(?>" + x + ")" + y)
			add("^" + x + y)
			add(x + y + "$")
			add(`\b` + x + y)
			add(x + `\b` + y)
			add(`\G` + x + y)
			add(x + `\G` + y)
			add(x + "(?=" + y + ")")
			add("(?=" + x + ")" + y)
			add("(?<=" + x + ")" + y)
			add(x + "(?!" + y + ")")
			add("(?<!" + x + ")" + y)
			add("(" + x + y + `)\1`)
			add("(" + x + `)\1` + y)
			add("(" + x + ")" + y + `\1`)
		}
	}
	hand := []string{"ab|ba", "a|b-", "ab|a-|b", "(?:ab)+", "(?:ab)*b", "(?:a|b)-", "(?:a|-)b", "^ab", "^a*b", "ab$", "a*$", `\bab`, `a\b`,
		"(a)b", "(a)|b", "(?:ab*){2}", `(?:a\d){2}-`, "a(?=b)", "(?=ab)a", "a*(?=ab)", "(?<=a)b", "[ab]{3}-", "[ab]{2,}-", `\w+-`, `\w+-\w+`, `\w+[-.]{1,2}-\w+`,
		`\d+-`, `\s*[+-]?\d+`, "[^-]*[-1]*a", "bx|[^ac]x", "b-|[^a1]-", "a.*b", "a.*?b", ".*ab", `.*\d`, "[a1]b", "[ab1]-", "(?:a|b)+-", "(a*)*b", "(?>a+)b", "a{2}", "a{2}b",
		"(?:ab){2}", "b*a{2}", "aab", "abab", "a-b", "ab-", "-ab", "[^ab]a", "[^ab]*a",
		`\w+[ -]{1,2}\s+-\w+`, `\w+(?:-|\s*-)-\w+`, `\w+([ -]{1,2}\s+)-\w+`, `\w+(?:-a|-)a\.`, `\w+(?:\.-|\.)-\w+`, `\w*-\s*\.\w+`, `\w+\s+-\s+\.\w+`, `[a-]+\.{1,2}\.a`,
		`\w+-(?:a|\.)\.-`, `\w+?-[.-]{1,3}\.`, "(?:ab|a-)+1", "(?:ab|ab-|a)1", "ab1|ab-|a-1", "aba|ab-|abb", "(?i:ab)-", "(?i:a)b", "a(?i:b)a",
		"(?<x>a)(?<-x>b)", "(?<x>a)+(?<-x>b)+(?(x)-|1)", "(a)?(?(1)b|-)", "(?:a|(b))-?\\1?", "a{1,3}?b", "(?:a+)+b", "(?:a*)+-", "(?:a?){3}a{2}", `(?m:^a)`, `(?m:a$)`, `(?s:a.b)`,
		`\Aab`, `ab\z`, `ab\Z`, `a\Bb`, `\Ba`, `(?=a)\w+-`, `(?=\w+-)a`, `(?=.*-)a+`, `(?!-)\w*-`, `.+-`, `.*?-a`, `[^a]+a`, `[^-]*-`, `[a-]*-a`, `\w*a\w*-`, `\d*-\d+`,
		"\uFFFDa", "a\uFFFD", "[ab]\uFFFD-", "\uFFFDab|\uFFFD-", ".\uFFFDb", `(a|ab)(c|bcd)?-`, `(?:(a)|b)+-`, `((a)|(b))*-`, `(a*)(b*)-\2\1`}
	for _, p := range hand {
		out = append(out, factsPat{p, true, false})
	}
	for _, p := range []string{"[ab]{25}-", "a{3}[ab]{22}-", "[ab]{21}-", "[ab]{20}-", "[ab]{19}-", "a{25}-", "[ab]{24}--?", "(?:ab){10}-", "[ab]{2}[ab]{23}-", "-b{30}-", "[ab]{20,}-", "[ab]{21,30}-"} {
		out = append(out, factsPat{p, false, true})
	}
	return out
}

type factsOpt struct {
	opt     RegexOptions
	codeGen bool
}

func (o factsOpt) String() string {
	s := fmt.Sprintf("options=%d", int(o.opt))
	if o.codeGen {
		s += "+OptionIsCodeGen"
	}
	return s
}

func factsHasPrefixFold(text []rune, p int, prefix []rune, fold bool) bool {
	if p < 0 || p+len(prefix) > len(text) {
		return false
	}
	for i, c := range prefix {
		d := text[p+i]
		if c != d && !(fold && unicode.ToLower(c) == unicode.ToLower(d)) {
			return false
		}
	}
	return true
}

var factsE2E = factsEnvInt("STANDIN_FACTS_E2E", 1) // 0 off, 1 default start offset, 2 every start offset

type factsReport func(kind, pat string, opt factsOpt, text []rune, detail string)

func TestStandinFacts(t *testing.T) {
	maxText := factsEnvInt("STANDIN_FACTS_TEXT", 4)
	level := factsEnvInt("STANDIN_FACTS_LEVEL", 1)
	show := factsEnvInt("STANDIN_FACTS_SHOW", 8)
	var texts [][]rune
	factsWords([]rune{'a', 'b', '-', '1'}, maxText, func(w []rune) { texts = append(texts, append([]rune(nil), w...)) })
	// longer texts for the shapes that need them
	for _, s := range []string{"a.-b", "abab", "aba1-a2a3-", "ababa", "aab-ab", "  42", "abc;", "dx", "xxabc", "ab-ab-ab", "a1a1-", "11-1", "bab-a", "AB-", "aB-Ab", "a\nb", "a-\n", "\na-", "ab-b-", "aabab", "a1-1-",
		// multi-byte runes: the raw-string filters work on byte offsets
		"é-a", "aéb", "-é1", "éé-", "a😀-", "1é-a", "😀ab", "bé😀a",
		// U+FFFD in a text stands for an invalid byte of the string handed to the string API
		"a\uFFFDb", "\uFFFD-a", "ab\uFFFD", "\uFFFDab-"} {
		texts = append(texts, []rune(s))
	}
	// texts for the shapes with a large fixed count
	var texts3 [][]rune
	for _, s := range []string{strings.Repeat("a", 25) + "-", "b" + strings.Repeat("ab", 12) + "-", "1" + strings.Repeat("a", 26) + "-b", strings.Repeat("ab", 10) + "-", strings.Repeat("a", 21) + "-", strings.Repeat("a", 24) + "-", "-" + strings.Repeat("b", 30) + "-"} {
		texts3 = append(texts3, []rune(s))
	}
	// the hand-picked shapes also see every text over a second alphabet, one rune longer
	texts2 := append([][]rune(nil), texts...)
	factsWords([]rune{'a', '-', ' ', '.'}, maxText+1, func(w []rune) { texts2 = append(texts2, append([]rune(nil), w...)) })
	opts := []factsOpt{{None, false}, {RightToLeft, false}, {IgnoreCase, false}, {None, true}}
	if level >= 2 {
		opts = append(opts, factsOpt{IgnoreCase, true}, factsOpt{RightToLeft | IgnoreCase, false}, factsOpt{ECMAScript, false}, factsOpt{RE2, false}, factsOpt{Multiline, true}, factsOpt{Singleline, false})
	}

	var mu sync.Mutex
	cases, bad, skipped, hits, attempts := 0, 0, 0, 0, 0
	kinds := map[string]int{}
	report := func(kind, pat string, opt factsOpt, text []rune, detail string) {
		mu.Lock()
		defer mu.Unlock()
		if bad < show {
			fmt.Printf("STANDIN-MISMATCH %s pattern=%q %s text=%q %s\n", kind, pat, opt, string(text), detail)
		}
		kinds[kind]++
		bad++
	}

	work := make(chan factsPat, 256)
	var wg sync.WaitGroup
	worker := func() {
		defer wg.Done()
		lc, ls, lh, la := 0, 0, 0, 0
		for w := range work {
			tt := texts
			if w.extra {
				tt = texts2
			}
			if w.long {
				tt = texts3
			}
			for _, opt := range opts {
				var re *Regexp
				var err error
				if opt.codeGen {
					re, err = Compile(w.pat, opt.opt, OptionIsCodeGen())
				} else {
					re, err = Compile(w.pat, opt.opt)
				}
				if err != nil {
					ls++
					continue
				}
				c, h, a := factsOne(re, w.pat, opt, tt, report)
				lc += c
				lh += h
				la += a
			}
		}
		mu.Lock()
		cases += lc
		skipped += ls
		hits += lh
		attempts += la
		mu.Unlock()
	}
	n := runtime.GOMAXPROCS(0)
	for i := 0; i < n; i++ {
		wg.Add(1)
		go worker()
	}
	pats := factsPatterns(level)
	for _, p := range pats {
		work <- p
	}
	close(work)
	wg.Wait()

	fmt.Printf("STANDIN-PATTERNS %d\n", len(pats))
	fmt.Printf("STANDIN-CASES %d\n", cases)
	fmt.Printf("STANDIN-SKIPPED %d\n", skipped)
	fmt.Printf("STANDIN-ATTEMPTS %d succeeded %d\n", attempts, hits)
	if hits == 0 {
		t.Fatalf("vacuous: no attempt succeeded")
	}
	if bad > 0 {
		fmt.Printf("STANDIN-KINDS %v\n", kinds)
		t.Fatalf("%d mismatches", bad)
	}
}

func factsOne(re *Regexp, pat string, opt factsOpt, texts [][]rune, report factsReport) (cases, hits, attempts int) {
	code := re.code
	rtl := code.RightToLeft
	fo := code.FindOptimizations
	minLen := 0
	if fo != nil {
		minLen = fo.MinRequiredLength
	}
	r := re.getRunner()
	for _, text := range texts {
		n := len(text)
		origin := 0
		if rtl {
			origin = n
		}
		m := make([]factsAttemptResult, n+1)
		abort := false
		for p := 0; p <= n; p++ {
			res, pn := factsAttempt(r, text, origin, p, false)
			if pn != nil {
				report("interpreter-panic", pat, opt, text, fmt.Sprintf("p=%d: %v", p, pn))
				abort = true
				break
			}
			m[p] = res
			attempts++
			if res.ok {
				hits++
			}
		}
		if abort {
			r = re.getRunner()
			continue
		}
		cases++
		for p := 0; p <= n; p++ {
			if !m[p].ok {
				continue
			}
			if minLen > 0 && ((!rtl && n-p < minLen) || (rtl && p < minLen)) {
				report("F-min", pat, opt, text, fmt.Sprintf("attempt succeeds at p=%d but MinRequiredLength=%d", p, minLen))
			}
			a := code.Anchors
			if a&syntax.AnchorBeginning != 0 && p != 0 {
				report("F-anchor", pat, opt, text, fmt.Sprintf("Beginning anchor published, attempt succeeds at p=%d", p))
			}
			if a&syntax.AnchorStart != 0 && p != origin {
				report("F-anchor", pat, opt, text, fmt.Sprintf("Start anchor published, attempt succeeds at p=%d", p))
			}
			if a&syntax.AnchorEnd != 0 && p != n {
				report("F-anchor", pat, opt, text, fmt.Sprintf("End anchor published, attempt succeeds at p=%d", p))
			}
			if a&syntax.AnchorEndZ != 0 && !(p == n || (p == n-1 && text[p] == '\n')) {
				report("F-anchor", pat, opt, text, fmt.Sprintf("EndZ anchor published, attempt succeeds at p=%d", p))
			}
			if code.BmPrefix != nil && !code.BmPrefix.IsMatch(text, p, 0, n) {
				report("F-bm", pat, opt, text, fmt.Sprintf("attempt succeeds at p=%d where the Boyer-Moore prefix does not match", p))
			}
			if code.FcPrefix != nil {
				var ch rune = -1
				if !rtl && p < n {
					ch = text[p]
				} else if rtl && p > 0 {
					ch = text[p-1]
				}
				if ch >= 0 && code.FcPrefix.CaseInsensitive {
					ch = unicode.ToLower(ch)
				}
				if ch < 0 || !code.FcPrefix.PrefixSet.CharIn(ch) {
					report("F-fc", pat, opt, text, fmt.Sprintf("attempt succeeds at p=%d whose first character is not in the published set", p))
				}
			}
			if fo != nil {
				factsDirect(fo, pat, opt, text, origin, p, m[p], rtl, report)
			}
		}
		// the candidate finder as a whole
		for q := 0; q <= n; q++ {
			found, pos, pn := factsFind(r, text, origin, q)
			if pn != nil {
				report("F-skip", pat, opt, text, fmt.Sprintf("finder panics from q=%d: %v", q, pn))
				r = re.getRunner()
				break
			}
			if !rtl {
				// scan attempts at pos when found; otherwise it goes on from pos+1, so pos itself is passed over too
				lim := pos
				if !found {
					lim = pos + 1
				}
				for p := q; p < lim && p <= n; p++ {
					if m[p].ok {
						report("F-skip", pat, opt, text, fmt.Sprintf("finder from q=%d returns (%v, %d) but an attempt succeeds at p=%d", q, found, pos, p))
						break
					}
				}
			} else {
				lim := pos
				if !found {
					lim = pos - 1
				}
				for p := q; p > lim && p >= 0; p-- {
					if m[p].ok {
						report("F-skip", pat, opt, text, fmt.Sprintf("finder from q=%d returns (%v, %d) but an attempt succeeds at p=%d", q, found, pos, p))
						break
					}
				}
			}
		}
		// end to end: every start offset, rune API and string API against the naive scan
		str := strings.ReplaceAll(string(text), "\uFFFD", "\xff") // decodes to the same runes
		byteOff := make([]int, 0, n+1)
		for i := range str {
			byteOff = append(byteOff, i)
		}
		byteOff = append(byteOff, len(str))
		if factsE2E >= 2 || (factsE2E == 1 && (n <= 2 || n >= 5)) {
			// quick tier: the shortest texts and the hand-picked longer ones
			factsIter(re, pat, opt, text, rtl, report)
		}
		for s := 0; s <= n && factsE2E > 0; s++ {
			if factsE2E == 1 && s != origin {
				continue // quick tier: default start offset only
			}
			var want factsAttemptResult
			step := 1
			if rtl {
				step = -1
			}
			for p := s; p >= 0 && p <= n; p += step {
				var ok bool
				if s == origin {
					ok = m[p].ok
				} else {
					res, pn := factsAttempt(r, text, s, p, false)
					if pn != nil {
						report("interpreter-panic", pat, opt, text, fmt.Sprintf("origin=%d p=%d: %v", s, p, pn))
						r = re.getRunner()
						break
					}
					ok = res.ok
				}
				if ok {
					var pn any
					want, pn = factsAttempt(r, text, s, p, true)
					if pn != nil {
						r = re.getRunner()
					}
					break
				}
			}
			describe := func(m *Match, err error) string {
				if err != nil {
					return "error " + err.Error()
				}
				if m == nil {
					return "no match"
				}
				return fmt.Sprintf("match at %d+%d captures %s", m.RuneIndex, m.RuneLength, factsSignature(m))
			}
			wantS := "no match"
			if want.ok {
				wantS = fmt.Sprintf("match at %d+%d captures %s", want.index, want.length, want.captures)
			}
			func() {
				defer func() {
					if x := recover(); x != nil {
						report("F-e2e", pat, opt, text, fmt.Sprintf("start=%d: public call panics: %v", s, x))
					}
				}()
				if got := describe(re.FindRunesMatchStartingAt(text, s)); got != wantS {
					report("F-e2e", pat, opt, text, fmt.Sprintf("start=%d: FindRunesMatchStartingAt gives %s, naive scan gives %s", s, got, wantS))
				}
				if got := describe(re.FindStringMatchStartingAt(str, byteOff[s])); got != wantS {
					report("F-e2e", pat, opt, text, fmt.Sprintf("start=%d: FindStringMatchStartingAt gives %s, naive scan gives %s", s, got, wantS))
				}
				if s == origin {
					if got, err := re.MatchString(str); err != nil || got != want.ok {
						report("F-e2e", pat, opt, text, fmt.Sprintf("MatchString gives %v (%v), naive scan gives %s", got, err, wantS))
					}
				}
			}()
		}
	}
	re.putRunner(r)
	return
}

// F-iter (C07 side of the same public calls): the FindNextMatch sequence is ordered, disjoint, ends within n+2 steps,
// and each next match is what an independent search finds from the end of the previous match (one position further
// after an empty match). Patterns with \G are left out: FindNextMatch keeps the previous position as the \G origin.
func factsIter(re *Regexp, pat string, opt factsOpt, text []rune, rtl bool, report factsReport) {
	if strings.Contains(pat, `\G`) {
		return
	}
	defer func() {
		if x := recover(); x != nil {
			report("F-iter", pat, opt, text, fmt.Sprintf("iteration panics: %v", x))
		}
	}()
	n := len(text)
	describe := func(m *Match, err error) string {
		if err != nil {
			return "error " + err.Error()
		}
		if m == nil {
			return "no match"
		}
		return fmt.Sprintf("match at %d+%d captures %s", m.RuneIndex, m.RuneLength, factsSignature(m))
	}
	m, err := re.FindRunesMatch(text)
	for steps := 0; m != nil && err == nil; steps++ {
		if steps > n+2 {
			report("F-iter", pat, opt, text, "the FindNextMatch sequence does not end")
			return
		}
		next, nerr := re.FindNextMatch(m)
		pos, stop, bump := m.RuneIndex+m.RuneLength, n, 1
		if rtl {
			pos, stop, bump = m.RuneIndex, 0, -1
		}
		want := "no match"
		if !(m.RuneLength == 0 && pos == stop) {
			if m.RuneLength == 0 {
				pos += bump
			}
			want = describe(re.FindRunesMatchStartingAt(text, pos))
		}
		if got := describe(next, nerr); got != want {
			report("F-iter", pat, opt, text, fmt.Sprintf("after match at %d+%d FindNextMatch gives %s, an independent search from %d gives %s", m.RuneIndex, m.RuneLength, got, pos, want))
			return
		}
		if next != nil {
			if (!rtl && next.RuneIndex < m.RuneIndex+m.RuneLength) || (rtl && next.RuneIndex+next.RuneLength > m.RuneIndex) {
				report("F-iter", pat, opt, text, fmt.Sprintf("match at %d+%d is followed by an overlapping match at %d+%d", m.RuneIndex, m.RuneLength, next.RuneIndex, next.RuneLength))
				return
			}
		}
		m, err = next, nerr
	}
}

// the facts of the find-optimisation record, checked directly against one successful attempt at p
func factsDirect(fo *syntax.FindOptimizations, pat string, opt factsOpt, text []rune, origin, p int, res factsAttemptResult, rtl bool, report factsReport) {
	n := len(text)
	if fo.MaxPossibleLength >= 0 && res.length > fo.MaxPossibleLength {
		report("F-max", pat, opt, text, fmt.Sprintf("match of length %d at p=%d but MaxPossibleLength=%d", res.length, p, fo.MaxPossibleLength))
	}
	switch fo.LeadingAnchor {
	case syntax.NtBeginning:
		if p != 0 {
			report("F-anchor", pat, opt, text, fmt.Sprintf("LeadingAnchor Beginning, attempt succeeds at p=%d", p))
		}
	case syntax.NtStart:
		if p != origin {
			report("F-anchor", pat, opt, text, fmt.Sprintf("LeadingAnchor Start, attempt succeeds at p=%d", p))
		}
	case syntax.NtEnd:
		if p != n {
			report("F-anchor", pat, opt, text, fmt.Sprintf("LeadingAnchor End, attempt succeeds at p=%d", p))
		}
	case syntax.NtEndZ:
		if !(p == n || (p == n-1 && text[p] == '\n')) {
			report("F-anchor", pat, opt, text, fmt.Sprintf("LeadingAnchor EndZ, attempt succeeds at p=%d", p))
		}
	case syntax.NtBol:
		if !(p == 0 || text[p-1] == '\n') {
			report("F-anchor", pat, opt, text, fmt.Sprintf("LeadingAnchor Bol, attempt succeeds at p=%d", p))
		}
	}
	end := res.index + res.length
	switch fo.TrailingAnchor {
	case syntax.NtEnd:
		if end != n {
			report("F-anchor", pat, opt, text, fmt.Sprintf("TrailingAnchor End, match from p=%d ends at %d", p, end))
		}
	case syntax.NtEndZ:
		if !(end == n || (end == n-1 && text[end] == '\n')) {
			report("F-anchor", pat, opt, text, fmt.Sprintf("TrailingAnchor EndZ, match from p=%d ends at %d", p, end))
		}
	}
	fold := fo.FindMode == syntax.LeadingString_OrdinalIgnoreCase_LeftToRight || fo.FindMode == syntax.LeadingStrings_OrdinalIgnoreCase_LeftToRight
	if fo.LeadingPrefix != "" {
		pre := []rune(fo.LeadingPrefix)
		at := p
		if rtl {
			at = p - len(pre)
		}
		if !factsHasPrefixFold(text, at, pre, fold) {
			report("F-prefix", pat, opt, text, fmt.Sprintf("LeadingPrefix %q published, attempt succeeds at p=%d", fo.LeadingPrefix, p))
		}
	}
	if len(fo.LeadingPrefixes) > 0 {
		any := false
		for _, s := range fo.LeadingPrefixes {
			if factsHasPrefixFold(text, p, []rune(s), fold) {
				any = true
			}
		}
		if !any {
			report("F-prefix", pat, opt, text, fmt.Sprintf("LeadingPrefixes %q published, attempt succeeds at p=%d", fo.LeadingPrefixes, p))
		}
	}
	charAt := func(d int) rune {
		q := p + d
		if rtl {
			q = p - 1 - d
		}
		if q < 0 || q >= n {
			return -1
		}
		return text[q]
	}
	switch fo.FindMode {
	case syntax.FixedDistanceChar_LeftToRight, syntax.LeadingChar_RightToLeft:
		if charAt(fo.FixedDistanceLiteral.Distance) != fo.FixedDistanceLiteral.C {
			report("F-fixed", pat, opt, text, fmt.Sprintf("char %q at distance %d published, attempt succeeds at p=%d", fo.FixedDistanceLiteral.C, fo.FixedDistanceLiteral.Distance, p))
		}
	case syntax.FixedDistanceString_LeftToRight:
		if !factsHasPrefixFold(text, p+fo.FixedDistanceLiteral.Distance, []rune(fo.FixedDistanceLiteral.S), false) {
			report("F-fixed", pat, opt, text, fmt.Sprintf("string %q at distance %d published, attempt succeeds at p=%d", fo.FixedDistanceLiteral.S, fo.FixedDistanceLiteral.Distance, p))
		}
	}
	for _, s := range fo.FixedDistanceSets {
		ch := charAt(s.Distance)
		if ch < 0 || s.Set == nil || !s.Set.CharIn(ch) {
			report("F-fixed", pat, opt, text, fmt.Sprintf("set %v at distance %d published, attempt succeeds at p=%d", s.Set, s.Distance, p))
		}
		if ch >= 0 && len(s.Chars) > 0 {
			in := false
			for _, c := range s.Chars {
				if c == ch {
					in = true
				}
			}
			if in == s.Negated {
				report("F-fixed", pat, opt, text, fmt.Sprintf("chars %q negated=%v at distance %d published, attempt succeeds at p=%d", string(s.Chars), s.Negated, s.Distance, p))
			}
		}
		if ch >= 0 && s.Range != nil && (s.Range.First <= ch && ch <= s.Range.Last) == s.Negated {
			report("F-fixed", pat, opt, text, fmt.Sprintf("range %v negated=%v at distance %d published, attempt succeeds at p=%d", *s.Range, s.Negated, s.Distance, p))
		}
	}
}
