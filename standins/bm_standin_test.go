package syntax

// Bounded stand-in for the trusted contract of (*BmPrefix).Scan (and, through it, of newBmPrefix's tables):
// every pattern over a 6-letter alphabet up to a length bound, both directions, both case modes, against every
// text up to a length bound and every start index, compared with the naive first-occurrence search that the
// contract states. The alphabet mixes ASCII (both cases), Latin-1, a rune >= U+0100 and an astral rune so that the ASCII table,
// the per-page tables and the case folding are all exercised.
// Labelled "bounded" in the evidence; never counted as proved.

import (
	"fmt"
	"os"
	"strconv"
	"testing"
	"unicode"
)

func standinEnvInt(name string, def int) int {
	if v, err := strconv.Atoi(os.Getenv(name)); err == nil && v > 0 {
		return v
	}
	return def
}

func standinWords(alpha []rune, maxLen int, minLen int, f func([]rune)) {
	var rec func(cur []rune)
	rec = func(cur []rune) {
		if len(cur) >= minLen {
			f(cur)
		}
		if len(cur) == maxLen {
			return
		}
		for _, a := range alpha {
			rec(append(cur, a))
		}
	}
	rec(make([]rune, 0, maxLen))
}

func standinPatAt(pat []rune, ci bool, text []rune, q int) bool {
	if q < 0 || q+len(pat) > len(text) {
		return false
	}
	for i := range pat {
		ch := text[q+i]
		if ci {
			ch = unicode.ToLower(ch)
		}
		if ch != pat[i] {
			return false
		}
	}
	return true
}

func standinScan(b *BmPrefix, text []rune, index int) (r int, panicked any) {
	defer func() { panicked = recover() }()
	return b.Scan(text, index, 0, len(text)), nil
}

func TestStandinBM(t *testing.T) {
	maxPat := standinEnvInt("STANDIN_BM_PAT", 3)
	maxText := standinEnvInt("STANDIN_BM_TEXT", 5)
	alpha := []rune{'a', 'b', 'A', 0xE9, 0x100, 0x1F600}
	cases := 0
	bad := 0
	standinWords(alpha, maxPat, 1, func(p []rune) {
		for _, ci := range []bool{false, true} {
			for _, rtl := range []bool{false, true} {
				pat := append([]rune(nil), p...)
				b := newBmPrefix(pat, ci, rtl)
				if b == nil {
					continue // no Boyer-Moore prefix is built for this pattern (e.g. it contains an astral rune)
				}
				lp := append([]rune(nil), b.pattern...) // lower-cased by the constructor when ci
				standinWords(alpha, maxText, 0, func(text []rune) {
					for index := 0; index <= len(text); index++ {
						cases++
						got, panicked := standinScan(b, text, index)
						if panicked != nil {
							if bad < 5 {
								bad++
								fmt.Printf("STANDIN-MISMATCH pattern=%q ci=%v rtl=%v text=%q index=%d Scan panics: %v\n", string(p), ci, rtl, string(text), index, panicked)
							}
							continue
						}
						want := -1
						if !rtl {
							for q := index; q+len(lp) <= len(text); q++ {
								if standinPatAt(lp, ci, text, q) {
									want = q
									break
								}
							}
						} else {
							for q := index; q-len(lp) >= 0; q-- {
								if standinPatAt(lp, ci, text, q-len(lp)) {
									want = q
									break
								}
							}
						}
						if got != want && bad < 5 {
							bad++
							fmt.Printf("STANDIN-MISMATCH pattern=%q ci=%v rtl=%v text=%q index=%d Scan=%d naive=%d\n", string(p), ci, rtl, string(text), index, got, want)
						}
					}
				})
			}
		}
	})
	fmt.Printf("STANDIN-CASES %d\n", cases)
	if bad > 0 {
		t.Fatalf("%d mismatches", bad)
	}
}
