#!/bin/bash
# usage: facts.sh <prop> <tier> <extra-json-out>
# Bounded stand-in for the ASSUMED published facts (PosFacts/ModeFacts at every scan call) and for the parts of the
# candidate finder that rest on stated assumptions: runs standins/facts_standin_test.go inside /repo (go test -overlay;
# nothing is written to the repository), rebuilt from the working tree.
HERE=$(cd "$(dirname "$0")/.." && pwd)
. "$HERE/scripts/goenv.sh"
REPO=${REPO:-/repo}; prop=$1; tier=$2; out=$3
if [ "$tier" = thorough ]; then export STANDIN_FACTS_TEXT=${STANDIN_FACTS_TEXT:-4} STANDIN_FACTS_LEVEL=${STANDIN_FACTS_LEVEL:-2} STANDIN_FACTS_E2E=${STANDIN_FACTS_E2E:-2}; else export STANDIN_FACTS_TEXT=3 STANDIN_FACTS_LEVEL=1 STANDIN_FACTS_E2E=1; fi
export GOGC=400
if [ "$tier" = thorough ]; then STANDIN_TIMEOUT=7000; else STANDIN_TIMEOUT=1500; fi
tmp=$(mktemp -d); trap 'rm -rf "$tmp"' EXIT
printf '{"Replace":{"%s/zz_verif_standin_test.go":"%s/standins/facts_standin_test.go"}}' "$REPO" "$HERE" > "$tmp/ov.json"
t0=$(date +%s.%N)
res=$(cd "$REPO" && go test -tags verif -overlay "$tmp/ov.json" -vet=off -count=1 -timeout ${STANDIN_TIMEOUT}s -v -run 'TestStandinFacts$' . 2>&1)
rc=$?
secs=$(echo "$(date +%s.%N) - $t0" | bc)
cases=$(echo "$res" | grep -o 'STANDIN-CASES [0-9]*' | awk '{print $2}'); cases=${cases:-0}
export STANDIN_PATS=$(echo "$res" | grep -o 'STANDIN-PATTERNS [0-9]*' | awk '{print $2}')
REPL=${REPL:-$HERE/replays}; mkdir -p "$REPL/$prop"
status=held
if [ $rc -ne 0 ] || [ "$cases" = 0 ]; then
  status=failed
  f="$REPL/$prop/regexp2.publishedFacts-bounded-standin.json"
  printf '%s' "$res" | tail -c 4000 > "$tmp/res.txt"
  python3 - "$f" "$prop" "$tmp/res.txt" <<'PY'
import json,sys
res=open(sys.argv[3]).read()
json.dump({"property":sys.argv[2],"obligation":"regexp2.publishedFacts#bounded-standin","kind":"bounded stand-in","outcome":"confirmed" if "STANDIN-MISMATCH" in res else "stand-in did not run","output":res},open(sys.argv[1],"w"),indent=1)
PY
  if echo "$res" | grep -q STANDIN-MISMATCH; then
    echo "$res" | grep STANDIN-MISMATCH | head -3
    echo "VIOLATION property=$prop replay=$f obligation=regexp2.publishedFacts#bounded-standin status=refuted confirmed"
  else
    echo "$res" | tail -5
    echo "ENGINE-ERROR bounded stand-in for the published facts did not run"
  fi
fi
python3 - "$out" "$cases" "$secs" "$status" <<'PY'
import json,sys,os
out,cases,secs,status=sys.argv[1:5]
lvl=int(os.environ.get("STANDIN_FACTS_LEVEL")); e2e=int(os.environ.get("STANDIN_FACTS_E2E"))
n=int(os.environ.get("STANDIN_FACTS_TEXT"))
pats=int(os.environ.get("STANDIN_PATS","0"))
json.dump({"bounded":[{"function":"published facts and candidate search (assumed PosFacts/ModeFacts at scan; the analyzers in syntax/prefixanalyzer.go, prefix.go, optimizations.go, tree.go min/max length; finders behind callensure assumptions in findFirstCharOptimized; findFirstCharDefault; bump-along; raw-string prefix filters)","labelled":"bounded - not counted as proved",
 "bound":"%d patterns: items = atom x quantifier (none * + ? *? +? {2} {1,2}) with 18 atoms (a b [ab] [^a] . \\w - \\d [^ab] \\W \\s [a-] (?:ab) (?:a|-) \\b 1 (?i:a) [\\w-[a]]); every 1- and 2-item sequence, 3-item sequences over %s, two-letter literal before/after an item, x|y, xy|z, (?:x|y)z, x(?:y|z), quantified groups, captures, atomic groups, ^ $ \\b \\G, four lookarounds, backreferences, and ~150 hand-picked shapes (literal-after-loop, landmark chains, balancing groups, conditionals, inline options); options %s; every text over {a,b,-,1} of length 0..%d (hand-picked shapes also over {a,-,space,.} of length 0..%d) plus 33 longer texts (8 with 2- and 4-byte runes, 4 with an invalid byte in the string form); 12 shapes with fixed counts around 20..30 on 7 texts of 21..32 runes; every attempt position, every finder start, %s"%(pats,"the 8 first atoms x (none * + ?)" if lvl>=2 else "20 items","None, RightToLeft, IgnoreCase, None+OptionIsCodeGen"+(", IgnoreCase+OptionIsCodeGen, RightToLeft|IgnoreCase, ECMAScript, RE2, Multiline+OptionIsCodeGen, Singleline" if lvl>=2 else ""),n,n+1,"every start offset of the public calls" if e2e>=2 else "the default start offset of the public calls"),
 "cases":int(cases),"seconds":float(secs),"result":status,
 "checks":"where a single-position attempt of the compiled program succeeds: remaining length >= MinRequiredLength, match length <= MaxPossibleLength, published leading/trailing anchors hold, leading prefix / one of the leading prefixes is there, fixed-distance char, string and sets hold, Boyer-Moore prefix matches, first character is in the first-character set; the finder from any start never passes over such a position; FindRunesMatchStartingAt, FindStringMatchStartingAt and MatchString return exactly the naive scan's match (position, length, all captures); the FindNextMatch sequence is ordered, disjoint, finite and each step equals an independent search from the end of the previous match"}]},open(out,"w"))
PY
[ "$status" = held ] && exit 0
echo "$res" | grep -q STANDIN-MISMATCH && exit 1
exit 2
