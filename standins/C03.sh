#!/bin/bash
exec "$(dirname "$0")/run.sh" C03 "$@" bm facts
