#!/bin/bash
exec "$(dirname "$0")/run.sh" C09 "$@" exec:replace
