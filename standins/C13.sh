#!/bin/bash
exec "$(dirname "$0")/run.sh" C13 "$@" exec:stack
