#!/bin/bash
exec "$(dirname "$0")/bm.sh" C10 "$@"
