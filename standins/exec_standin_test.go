package regexp2

// Bounded stand-ins for two executable contracts of the interpreter (executeDefault, ~900 lines in one dispatch loop,
// together with the flags the writer puts on each opcode): outside the verifier's reach, so the execute contract E1-E3
// is an assumption of every proof. Both are metamorphic: they need no second implementation of the matcher.
//
// TestStandinMirror (C15): for a pattern P built from a small abstract syntax and its mirror image P' (concatenations
// reversed, ^ and $ swapped, lookahead and lookbehind swapped, everything else in place),
//     find(P', RightToLeft, reverse(text), n-s)  is the mirror image of  find(P, LeftToRight, text, s)
// for every start offset s: both fail, or both succeed with index' = n-index-length, equal length, and every capture
// of every named group mirrored the same way, in the same order. Checked in both directions (P right-to-left against
// P' left-to-right as well).
//
// TestStandinCase (C20): under IgnoreCase the result (position, length, captures) is the same for every case variant of
// the text and for the pattern with the case of its literal letters, class members and range endpoints flipped.
//
// Labelled "bounded" in the evidence; never counted as proved.

import (
	"fmt"
	"os"
	"regexp"
	"runtime"
	"runtime/debug"
	"strings"
	"sync"
	"sync/atomic"
	"testing"
	"unicode"
)

type xnode interface {
	fwd() string
	mir() string
	up() string // same pattern with the case of its letters flipped
}

type xatom struct{ s, u string }

func (a xatom) fwd() string { return a.s }
func (a xatom) mir() string { return a.s }
func (a xatom) up() string  { return a.u }

// a literal of several letters: its mirror image is the reversed literal
type xlit struct{ s, u string }

func xrev(s string) string { return string(xreverse([]rune(s))) }
func (a xlit) fwd() string { return a.s }
func (a xlit) mir() string { return xrev(a.s) }
func (a xlit) up() string  { return a.u }

type xquant struct {
	n xnode
	q string
}

func (a xquant) fwd() string { return a.n.fwd() + a.q }
func (a xquant) mir() string { return a.n.mir() + a.q }
func (a xquant) up() string  { return a.n.up() + a.q }

type xseq []xnode

func (a xseq) fwd() string {
	var sb strings.Builder
	for _, n := range a {
		sb.WriteString(n.fwd())
	}
	return sb.String()
}
func (a xseq) mir() string {
	var sb strings.Builder
	for i := len(a) - 1; i >= 0; i-- {
		sb.WriteString(a[i].mir())
	}
	return sb.String()
}
func (a xseq) up() string {
	var sb strings.Builder
	for _, n := range a {
		sb.WriteString(n.up())
	}
	return sb.String()
}

type xalt []xnode // printed without parentheses: only at top level or inside a group

func (a xalt) join(f func(xnode) string) string {
	parts := make([]string, len(a))
	for i, n := range a {
		parts[i] = f(n)
	}
	return strings.Join(parts, "|")
}
func (a xalt) fwd() string { return a.join(xnode.fwd) }
func (a xalt) mir() string { return a.join(xnode.mir) }
func (a xalt) up() string  { return a.join(xnode.up) }

type xgroup struct {
	open, mopen string // "(?:", "(?<A>", "(?>", "(?=" ...; mopen is the opening of the mirror image
	n           xnode
}

func (a xgroup) fwd() string { return a.open + a.n.fwd() + ")" }
func (a xgroup) mir() string { return a.mopen + a.n.mir() + ")" }
func (a xgroup) up() string  { return a.open + a.n.up() + ")" }

type xanchor struct{ s, m string }

func (a xanchor) fwd() string { return a.s }
func (a xanchor) mir() string { return a.m }
func (a xanchor) up() string  { return a.s }

func xg(open string, n xnode) xnode { return xgroup{open, open, n} }
func xlook(open string, n xnode) xnode {
	m := map[string]string{"(?=": "(?<=", "(?<=": "(?=", "(?!": "(?<!", "(?<!": "(?!"}[open]
	return xgroup{open, m, n}
}

func xitems(atoms []xatom, quants []string) []xnode {
	var out []xnode
	for _, a := range atoms {
		for _, q := range quants {
			if q == "" {
				out = append(out, a)
			} else {
				out = append(out, xquant{a, q})
			}
		}
	}
	return out
}

var xAtoms = []xatom{{"a", "A"}, {"b", "B"}, {"[ab]", "[AB]"}, {"[^a]", "[^A]"}, {".", "."}, {`\w`, `\w`}, {"-", "-"}, {`\d`, `\d`},
	{"[^ab]", "[^AB]"}, {`\W`, `\W`}, {`\s`, `\s`}, {"[a-]", "[A-]"}, {"1", "1"}, {"(?:a|-)", "(?:A|-)"}, {`[\w-[a]]`, `[\w-[A]]`}}
var xSmallAtoms = []xatom{{"a", "A"}, {"[ab]", "[AB]"}, {"[^a]", "[^A]"}, {".", "."}, {"-", "-"}}
var xBasicQ = []string{"", "*", "+", "?"}
var xFullQ = []string{"", "*", "+", "?", "*?", "+?", "{2}", "{1,2}", "??"}

func xPatterns(level int) []xnode {
	full := xitems(xAtoms, xFullQ)
	small := xitems(xSmallAtoms, xBasicQ)
	tiny := xitems([]xatom{{"a", "A"}, {"[ab]", "[AB]"}, {"-", "-"}}, xBasicQ)
	var out []xnode
	add := func(n xnode) { out = append(out, n) }
	for _, x := range full {
		add(x)
		for _, y := range full {
			add(xseq{x, y})
		}
		add(xseq{xlit{"ab", "AB"}, x})
		add(xseq{x, xlit{"ab", "AB"}})
		add(xseq{xlit{"a-", "A-"}, x})
		add(xseq{x, xlit{"a-", "A-"}})
	}
	// counted groups whose body is an item next to a literal of two letters
	for _, x := range small {
		for _, l := range []xlit{{"ab", "AB"}, {"a-", "A-"}, {"ba", "BA"}} {
			for _, q := range []string{"{2}", "{2,}", "+", "*"} {
				add(xquant{xg("(?:", xseq{x, l}), q})
				add(xquant{xg("(?:", xseq{l, x}), q})
				add(xseq{xquant{xg("(?:", xseq{x, l}), q}, xanchor{"$", "^"}})
				add(xseq{xanchor{"^", "$"}, xquant{xg("(?:", xseq{l, x}), q}})
			}
		}
	}
	tr := small
	if level < 2 {
		tr = tiny
	}
	for _, x := range tr {
		for _, y := range tr {
			for _, z := range tr {
				add(xseq{x, y, z})
				add(xalt{xseq{x, y}, z})
				add(xseq{xg("(?:", xalt{x, y}), z})
				add(xseq{x, xg("(?:", xalt{y, z})})
			}
		}
	}
	for _, x := range small {
		for _, y := range small {
			add(xalt{x, y})
			for _, q := range []string{"*", "+", "?", "{2}", "*?", "+?"} {
				add(xquant{xg("(?:", xseq{x, y}), q})
				add(xseq{xquant{xg("(?<A>", x), q}, y})
			}
			add(xseq{xg("(?<A>", x), y})
			add(xseq{xg("(?<A>", x), xg("(?<B>", y)})
			add(xseq{xg("(?<A>", xseq{x, xg("(?<B>", y)}), xatom{"-", "-"}})
			add(xquant{xg("(?:", xalt{xg("(?<A>", x), xg("(?<B>", y)}), "*"})
			add(xseq{xg("(?>", x), y})
			add(xseq{x, xg("(?>", y)})
			add(xseq{xanchor{"^", "$"}, x, y})
			add(xseq{x, y, xanchor{"$", "^"}})
			add(xseq{xanchor{`\A`, `\z`}, x, y})
			add(xseq{x, y, xanchor{`\z`, `\A`}})
			add(xseq{xanchor{`\b`, `\b`}, x, y})
			add(xseq{x, xanchor{`\b`, `\b`}, y})
			add(xseq{x, xanchor{`\B`, `\B`}, y})
			add(xseq{xanchor{`\G`, `\G`}, x, y})
			add(xseq{x, y, xanchor{`\G`, `\G`}})
			add(xseq{x, xlook("(?=", y)})
			add(xseq{xlook("(?=", x), y})
			add(xseq{xlook("(?<=", x), y})
			add(xseq{x, xlook("(?<=", y)})
			add(xseq{x, xlook("(?!", y)})
			add(xseq{xlook("(?<!", x), y})
			add(xseq{xlook("(?=", xseq{x, y}), xatom{`\w`, `\w`}})
			add(xseq{xatom{`\w`, `\w`}, xlook("(?<=", xseq{x, y})})
			add(xseq{xg("(?<A>", x), xanchor{`\k<A>`, `\k<A>`}, y})
			add(xseq{xg("(?<A>", x), y, xanchor{`\k<A>`, `\k<A>`}})
			add(xseq{xg("(?<A>", xseq{x, y}), xanchor{`\k<A>`, `\k<A>`}})
			add(xseq{xanchor{`\k<A>`, `\k<A>`}, xg("(?<A>", x), y})
		}
	}
	return out
}

type xspan struct{ index, length int }

type xresult struct {
	ok     bool
	m      xspan
	groups map[string][]xspan
	err    string
}

func xfind(re *Regexp, text []rune, s int) (res xresult) {
	defer func() {
		if x := recover(); x != nil {
			res = xresult{err: fmt.Sprint("panic: ", x)}
		}
	}()
	m, err := re.FindRunesMatchStartingAt(text, s)
	if err != nil {
		return xresult{err: err.Error()}
	}
	if m == nil {
		return xresult{}
	}
	res.ok = true
	res.m = xspan{m.RuneIndex, m.RuneLength}
	res.groups = map[string][]xspan{}
	for _, g := range m.Groups() {
		var cs []xspan
		for _, c := range g.Captures {
			cs = append(cs, xspan{c.RuneIndex, c.RuneLength})
		}
		res.groups[g.Name] = cs
	}
	return res
}

func (r xresult) mirrored(n int) xresult {
	if !r.ok {
		return r
	}
	out := xresult{ok: true, m: xspan{n - r.m.index - r.m.length, r.m.length}, groups: map[string][]xspan{}}
	for k, cs := range r.groups {
		var ms []xspan
		for _, c := range cs {
			ms = append(ms, xspan{n - c.index - c.length, c.length})
		}
		out.groups[k] = ms
	}
	return out
}

func (r xresult) String() string {
	if r.err != "" {
		return r.err
	}
	if !r.ok {
		return "no match"
	}
	names := []string{}
	for k := range r.groups {
		names = append(names, k)
	}
	// stable order
	for i := range names {
		for j := i + 1; j < len(names); j++ {
			if names[j] < names[i] {
				names[i], names[j] = names[j], names[i]
			}
		}
	}
	var sb strings.Builder
	fmt.Fprintf(&sb, "match %d+%d", r.m.index, r.m.length)
	for _, k := range names {
		fmt.Fprintf(&sb, " %s=%v", k, r.groups[k])
	}
	return sb.String()
}

func xreverse(t []rune) []rune {
	out := make([]rune, len(t))
	for i, c := range t {
		out[len(t)-1-i] = c
	}
	return out
}

type xrun struct {
	mu                   sync.Mutex
	show, bad            int
	cases, found, failed int
	patterns, skipped    int
	known                map[string]int
}

// known findings (committed in /verif/known_findings.json, handed in by the wrapper): one regular expression per line,
// matched against the left-to-right pattern of a failing pair
var xKnown = func() []*regexp.Regexp {
	var out []*regexp.Regexp
	for _, l := range strings.Split(os.Getenv("STANDIN_KNOWN"), "\n") {
		if l = strings.TrimSpace(l); l != "" {
			out = append(out, regexp.MustCompile(l))
		}
	}
	return out
}()

func (x *xrun) reportPat(kind, pat, detail string) {
	for _, k := range xKnown {
		if k.MatchString(pat) {
			x.mu.Lock()
			if x.known == nil {
				x.known = map[string]int{}
			}
			x.known[k.String()]++
			x.mu.Unlock()
			return
		}
	}
	x.report(kind, detail)
}

func (x *xrun) report(kind, detail string) {
	x.mu.Lock()
	defer x.mu.Unlock()
	if x.bad < x.show {
		fmt.Printf("STANDIN-MISMATCH %s %s\n", kind, detail)
	}
	x.bad++
}

func xparallel(pats []xnode, f func(p xnode)) {
	work := make(chan xnode, 256)
	var wg sync.WaitGroup
	for i := 0; i < runtime.GOMAXPROCS(0); i++ {
		wg.Add(1)
		go func() {
			defer wg.Done()
			for p := range work {
				xguard(p, f)
			}
		}()
	}
	for _, p := range pats {
		work <- p
	}
	close(work)
	wg.Wait()
}

// a panic of the code under test while a stand-in case runs is a refutation (the public API must not panic, and the
// case cannot be compared), not a stand-in that "did not run": it is printed as a mismatch with the panic value and
// the top of the stack, the other cases go on, and finish fails the run
var xPanics int64

func xguard(p xnode, f func(p xnode)) {
	defer func() {
		if r := recover(); r != nil {
			if atomic.AddInt64(&xPanics, 1) <= 3 {
				st := string(debug.Stack())
				if i := strings.Index(st, "panic("); i >= 0 {
					st = st[i:] // the frames of the code under test follow the runtime's panic frame
				}
				if len(st) > 1500 {
					st = st[:1500]
				}
				fmt.Printf("STANDIN-MISMATCH panic case=%q: %v | stack: %s\n", p.fwd(), r, strings.ReplaceAll(st, "\n", " ; "))
			}
		}
	}()
	f(p)
}

func (x *xrun) finish(t *testing.T) {
	if n := atomic.LoadInt64(&xPanics); n > 0 {
		defer t.Fatalf("%d cases panicked in the code under test", n)
	}
	fmt.Printf("STANDIN-PATTERNS %d\n", x.patterns)
	fmt.Printf("STANDIN-CASES %d\n", x.cases)
	fmt.Printf("STANDIN-SKIPPED %d\n", x.skipped)
	fmt.Printf("STANDIN-FOUND %d notfound %d\n", x.found, x.failed)
	for k, n := range x.known {
		fmt.Printf("STANDIN-KNOWN %d mismatches on patterns matching %s\n", n, k)
	}
	if x.found == 0 || x.failed == 0 {
		t.Fatalf("vacuous: the compared calls never matched or never failed")
	}
	if x.bad > 0 {
		t.Fatalf("%d mismatches", x.bad)
	}
}

func TestStandinMirror(t *testing.T) {
	maxText := factsEnvInt("STANDIN_EXEC_TEXT", 3)
	level := factsEnvInt("STANDIN_EXEC_LEVEL", 1)
	x := &xrun{show: factsEnvInt("STANDIN_FACTS_SHOW", 8)}
	var plain, lines [][]rune
	factsWords([]rune{'a', 'b', '-', '1'}, maxText, func(w []rune) { plain = append(plain, append([]rune(nil), w...)) })
	for _, s := range []string{"abab", "ab-ab", "aab-b", "a1-a1", "aAbB", "-Ab-", "ab-b-", "aa-a-", "abbab", "babba", "ababb", "a-a-a", "baab"} {
		plain = append(plain, []rune(s))
	}
	factsWords([]rune{'a', '-', '\n'}, maxText, func(w []rune) { lines = append(lines, append([]rune(nil), w...)) })
	type optset struct {
		opt   RegexOptions
		texts [][]rune
	}
	opts := []optset{{None, plain}, {IgnoreCase, plain}, {Multiline, lines}}
	if level >= 2 {
		opts = append(opts, optset{Singleline | Multiline, lines}, optset{IgnoreCase | Multiline, lines}, optset{ExplicitCapture, plain})
	}
	pats := xPatterns(level)
	x.patterns = len(pats)
	xparallel(pats, func(p xnode) {
		lc, lf, ln, ls := 0, 0, 0, 0
		for _, o := range opts {
			// both directions: (P left-to-right, P' right-to-left) and (P' left-to-right, P right-to-left)
			for dir := 0; dir < 2; dir++ {
				ps, pm := p.fwd(), p.mir()
				if dir == 1 {
					ps, pm = pm, ps
				}
				reL, err1 := Compile(ps, o.opt)
				reR, err2 := Compile(pm, o.opt|RightToLeft)
				if err1 != nil || err2 != nil {
					if (err1 == nil) != (err2 == nil) {
						x.report("M-compile", fmt.Sprintf("pattern=%q compiles: %v; mirror %q right-to-left: %v", ps, err1, pm, err2))
					}
					ls++
					continue
				}
				for _, text := range o.texts {
					n := len(text)
					rev := xreverse(text)
					for s := 0; s <= n; s++ {
						a := xfind(reL, text, s)
						b := xfind(reR, rev, n-s)
						lc++
						if a.ok {
							lf++
						} else {
							ln++
						}
						if want := a.mirrored(n).String(); want != b.String() {
							x.reportPat("M-mirror", ps, fmt.Sprintf("pattern=%q options=%d text=%q start=%d gives %s; mirror pattern=%q RightToLeft on %q from %d gives %s, expected %s", ps, int(o.opt), string(text), s, a, pm, string(rev), n-s, b, want))
						}
					}
				}
			}
		}
		x.mu.Lock()
		x.cases += lc
		x.found += lf
		x.failed += ln
		x.skipped += ls
		x.mu.Unlock()
	})
	x.finish(t)
}

// every case variant of a text over letters (at most 2^len)
func xcaseVariants(t []rune) [][]rune {
	out := [][]rune{append([]rune(nil), t...)}
	if len(t) > 6 {
		// long texts: all letters flipped, and every second letter flipped
		all, alt := append([]rune(nil), t...), append([]rune(nil), t...)
		for i, c := range t {
			o := c
			if unicode.IsLower(c) {
				o = unicode.ToUpper(c)
			} else if unicode.IsUpper(c) {
				o = unicode.ToLower(c)
			}
			all[i] = o
			if i%2 == 0 {
				alt[i] = o
			}
		}
		return append(out, all, alt)
	}
	for i, c := range t {
		var o rune
		switch {
		case unicode.IsLower(c):
			o = unicode.ToUpper(c)
		case unicode.IsUpper(c):
			o = unicode.ToLower(c)
		default:
			continue
		}
		if o == c {
			continue
		}
		k := len(out)
		for j := 0; j < k; j++ {
			v := append([]rune(nil), out[j]...)
			v[i] = o
			out = append(out, v)
		}
	}
	return out
}

func xCasePatterns(level int) []xnode {
	atoms := []xatom{{"a", "A"}, {"b", "B"}, {"[ab]", "[AB]"}, {"[ab]", "[aB]"}, {"[^a]", "[^A]"}, {"[a-b]", "[A-B]"}, {"[^a-b]", "[^A-B]"},
		{"[a-c-[b]]", "[A-C-[B]]"}, {`[\w-[a]]`, `[\w-[A]]`}, {`[\s\S-[a]]`, `[\s\S-[A]]`}, {".", "."}, {"-", "-"}, {"é", "É"}, {"[éa]", "[ÉA]"}, {"д", "Д"}, {"[^д]", "[^Д]"}, {"[а-д]", "[А-Д]"}, {"k", "K"}, {"[i-k]", "[I-K]"},
		{"[^ab]", "[^AB]"}, {"(?:a|-)", "(?:A|-)"}, {"[a-]", "[A-]"}, {"(?:ab)", "(?:AB)"}, {`[^\W-[a]]`, `[^\W-[A]]`}, {"[b-k-[c-j]]", "[B-K-[C-J]]"}, {`\p{Ll}`, `\p{Lu}`}}
	quants := []string{"", "*", "+", "?", "{2}"}
	items := xitems(atoms, quants)
	small := xitems(atoms[:12], xBasicQ)
	tiny := xitems([]xatom{atoms[0], atoms[2], atoms[4], atoms[7], atoms[11]}, []string{"", "*", "+"})
	var out []xnode
	add := func(n xnode) { out = append(out, n) }
	for _, x := range items {
		add(x)
		for _, y := range items {
			add(xseq{x, y})
		}
		add(xseq{xatom{"ab", "AB"}, x})
		add(xseq{xatom{"ab", "aB"}, x})
		add(xseq{x, xatom{"ba", "Ba"}})
		add(xseq{xatom{"éa", "Éa"}, x})
		add(xseq{xatom{"дa-", "ДA-"}, x})
	}
	for _, x := range small {
		for _, y := range small {
			add(xalt{x, y})
			add(xseq{xg("(?<A>", x), xanchor{`\k<A>`, `\k<A>`}, y})
			add(xseq{xg("(?<A>", xseq{x, y}), xanchor{`\k<A>`, `\k<A>`}})
			// backreferences that are evaluated right to left: in front of the group (for RightToLeft), inside a lookbehind
			add(xseq{xanchor{`\k<A>`, `\k<A>`}, xg("(?<A>", x), y})
			add(xseq{xanchor{`\k<A>`, `\k<A>`}, xg("(?<A>", xseq{x, y})})
			add(xseq{xg("(?<A>", x), y, xlook("(?<=", xseq{xanchor{`\k<A>`, `\k<A>`}, y})})
			add(xseq{x, xlook("(?=", y)})
			add(xseq{xlook("(?<=", x), y})
			add(xseq{xlook("(?<!", x), y})
			add(xquant{xg("(?:", xseq{x, y}), "+"})
			if level >= 2 {
				for _, z := range tiny {
					add(xseq{x, y, z})
					add(xalt{xseq{x, y}, z})
				}
			}
		}
	}
	for _, s := range [][2]string{{"ab|ac|b-", "AB|aC|B-"}, {"abc|abd|a-", "ABC|ABD|A-"}, {"a[bc]d", "A[BC]D"}, {`\w+a-`, `\w+A-`}, {"[^ab]*a", "[^AB]*A"}, {"(?i:a)b", "(?i:A)b"},
{"a.*b", "A.*B"}, {"k-", "K-"}, {"[a-b]{25}c", "[A-B]{25}C"}, {`(a)(b)?\1\2`, `(A)(B)?\1\2`}, {"ab{2}a", "AB{2}A"}} {
		add(xatom{s[0], s[1]})
	}
	return out
}

func TestStandinCase(t *testing.T) {
	maxText := factsEnvInt("STANDIN_EXEC_TEXT", 3)
	level := factsEnvInt("STANDIN_EXEC_LEVEL", 1)
	x := &xrun{show: factsEnvInt("STANDIN_FACTS_SHOW", 8)}
	var texts [][]rune
	factsWords([]rune{'a', 'b', '-', 'c'}, maxText, func(w []rune) { texts = append(texts, append([]rune(nil), w...)) })
	factsWords([]rune{'é', 'д', 'a', 'k'}, maxText, func(w []rune) { texts = append(texts, append([]rune(nil), w...)) })
	for _, s := range []string{"abab", "ab-ab", "aab-b", "abcd", "abd-", "éaéa", "дa-д", strings.Repeat("ab", 13) + "c"} {
		texts = append(texts, []rune(s))
	}
	opts := []RegexOptions{IgnoreCase, IgnoreCase | RightToLeft}
	if level >= 2 {
		opts = append(opts, IgnoreCase|ECMAScript, IgnoreCase|RE2, IgnoreCase|Multiline)
	}
	pats := xCasePatterns(level)
	x.patterns = len(pats)
	xparallel(pats, func(p xnode) {
		lc, lf, ln, ls := 0, 0, 0, 0
		for _, o := range opts {
			re1, err1 := Compile(p.fwd(), o)
			re2, err2 := Compile(p.up(), o)
			if err1 != nil || err2 != nil {
				if (err1 == nil) != (err2 == nil) {
					x.report("K-compile", fmt.Sprintf("pattern=%q options=%d compiles: %v; case-flipped %q: %v", p.fwd(), int(o), err1, p.up(), err2))
				}
				ls++
				continue
			}
			for _, text := range texts {
				s := 0
				if o&RightToLeft != 0 {
					s = len(text)
				}
				base := xfind(re1, text, s)
				lc++
				if base.ok {
					lf++
				} else {
					ln++
				}
				want := base.String()
				if got := xfind(re2, text, s).String(); got != want {
					x.reportPat("K-pattern", p.fwd(), fmt.Sprintf("pattern=%q options=%d text=%q gives %s; case-flipped pattern %q gives %s", p.fwd(), int(o), string(text), want, p.up(), got))
				}
				for _, v := range xcaseVariants(text)[1:] {
					if got := xfind(re1, v, s).String(); got != want {
						x.reportPat("K-text", p.fwd(), fmt.Sprintf("pattern=%q options=%d text=%q gives %s; text %q gives %s", p.fwd(), int(o), string(text), want, string(v), got))
					}
				}
			}
		}
		x.mu.Lock()
		x.cases += lc
		x.found += lf
		x.failed += ln
		x.skipped += ls
		x.mu.Unlock()
	})
	x.finish(t)
}

// TestStandinStack (C13): the end-to-end form of the stack-limit property for the part the proofs assume (that the
// interpreter never pushes more than TrackCount*4 slots between two calls of ensureStorage, and unwinds correctly after
// a growth step). For every pattern, text and limit L: the call with the limit returns exactly what the unlimited call
// returns, or ErrBacktrackingStackLimit; it never panics; a larger limit never turns a success into an error; the same
// Regexp answers a following call like a fresh one.
func TestStandinStack(t *testing.T) {
	level := factsEnvInt("STANDIN_EXEC_LEVEL", 1)
	x := &xrun{show: factsEnvInt("STANDIN_FACTS_SHOW", 8)}
	var texts [][]rune
	factsWords([]rune{'a', 'b', '-'}, 3, func(w []rune) { texts = append(texts, append([]rune(nil), w...)) })
	for _, s := range []string{"aaaaaaaaaaaa", "abababababab-", "aaaaaaaab", strings.Repeat("ab-", 6), "xxxxxxxxxxxx", "xxxxxxy"} {
		texts = append(texts, []rune(s))
	}
	limits := []int{0, 1, 2, 7, 8, 9, 31, 32, 33, 63, 64, 65, 66, 100, 127, 128, 129, 200, 257, 1000}
	pats := xPatterns(1)
	for _, p := range []string{"(?:a*?b*?a*?b*?a*?b*?x)*y", "(a|b|-)*-", "(?:(a)|(b)|(-))*-\\1?", "(?:a|b)+?-", "(?<A>a)+(?<-A>b)*-?", "((a)|(b))*(?=-)", "(?:[ab]{1,3}-?){1,9}", "(?:(\\w?x){12})*y"} {
		pats = append(pats, xatom{s: p, u: p})
	}
	if level < 2 {
		// quick tier: every fourth generated pattern, all hand-picked ones
		var sel []xnode
		for i, p := range pats {
			if i%4 == 0 || i >= len(pats)-8 {
				sel = append(sel, p)
			}
		}
		pats = sel
	}
	x.patterns = len(pats)
	xparallel(pats, func(p xnode) {
		lc, lf, ln, ls := 0, 0, 0, 0
		for _, opt := range []RegexOptions{None, RightToLeft} {
			ref, err := Compile(p.fwd(), opt, OptionMaxBacktrackingStackSize(-1))
			if err != nil {
				ls++
				continue
			}
			res := make([]*Regexp, len(limits))
			for i, l := range limits {
				res[i], _ = Compile(p.fwd(), opt, OptionMaxBacktrackingStackSize(l))
			}
			for _, text := range texts {
				s := 0
				if opt&RightToLeft != 0 {
					s = len(text)
				}
				want := xfind(ref, text, s)
				if want.err != "" {
					x.report("S-unlimited", fmt.Sprintf("pattern=%q options=%d text=%q without a limit: %s", p.fwd(), int(opt), string(text), want.err))
					continue
				}
				if want.ok {
					lf++
				} else {
					ln++
				}
				succeeded := false
				for i, l := range limits {
					if res[i] == nil {
						continue
					}
					lc++
					got := xfind(res[i], text, s)
					switch {
					case got.err == ErrBacktrackingStackLimit.Error():
						if succeeded {
							x.report("S-monotone", fmt.Sprintf("pattern=%q options=%d text=%q: a smaller limit succeeded, limit %d fails with the stack-limit error", p.fwd(), int(opt), string(text), l))
						}
					case got.err != "":
						x.report("S-limit", fmt.Sprintf("pattern=%q options=%d text=%q limit=%d: %s", p.fwd(), int(opt), string(text), l, got.err))
					default:
						succeeded = true
						if got.String() != want.String() {
							x.report("S-limit", fmt.Sprintf("pattern=%q options=%d text=%q limit=%d gives %s, without a limit %s", p.fwd(), int(opt), string(text), l, got, want))
						}
					}
					// the Regexp stays usable: the same call on a short text answers like the unlimited one
					if after, fresh := xfind(res[i], []rune("ab-"), s%4), xfind(ref, []rune("ab-"), s%4); after.err == "" && after.String() != fresh.String() {
						x.report("S-after", fmt.Sprintf("pattern=%q options=%d limit=%d: after the call on %q, a call on \"ab-\" gives %s, a fresh Regexp %s", p.fwd(), int(opt), l, string(text), after, fresh))
					}
				}
			}
		}
		x.mu.Lock()
		x.cases += lc
		x.found += lf
		x.failed += ln
		x.skipped += ls
		x.mu.Unlock()
	})
	x.finish(t)
}

// TestStandinClass (C16): the class parser (scanCharSet, shorthand escapes, negation, subtraction, the IgnoreCase
// closure) is not under contract; the proofs of C16 start from the CharSet it builds. For every class expression of a
// small grammar and every rune of a small universe, membership as the engine sees it (^[...]$ against the one-rune
// text, which goes through the compiled program) must equal set algebra over the parts of the expression.
type kitem struct {
	text string
	has  func(r rune, mode int) bool // mode: 0 default, 1 ECMAScript, 2 RE2
}

func kascii(r rune) bool { return r < 128 }
func kword(r rune, mode int) bool {
	if r < 128 {
		return r == '_' || (r >= '0' && r <= '9') || (r >= 'a' && r <= 'z') || (r >= 'A' && r <= 'Z')
	}
	// default mode: letters, marks, decimal digits, connector punctuation (the universe holds only letters above ASCII)
	return mode == 0 && (unicode.IsLetter(r) || unicode.Is(unicode.Mn, r) || unicode.Is(unicode.Nd, r) || unicode.Is(unicode.Pc, r))
}
func kdigit(r rune, mode int) bool {
	if mode == 0 {
		return unicode.Is(unicode.Nd, r)
	}
	return r >= '0' && r <= '9'
}
func kspace(r rune, mode int) bool {
	switch mode {
	case 1: // ECMAScript WhiteSpace + LineTerminator, as far as the universe goes
		return r == ' ' || (r >= '\t' && r <= '\r') || r == 0xa0 || r == 0xfeff || r == 0x2028 || r == 0x2029
	case 2: // RE2: [\t\n\f\r ]
		return r == ' ' || r == '\t' || r == '\n' || r == '\f' || r == '\r'
	}
	return unicode.IsSpace(r)
}

func klit(c rune) kitem {
	s := string(c)
	if c == '-' || c == ']' || c == '^' || c == '\\' {
		s = `\` + s
	}
	return kitem{s, func(r rune, _ int) bool { return r == c }}
}
func krange(a, b rune) kitem {
	return kitem{string(a) + "-" + string(b), func(r rune, _ int) bool { return a <= r && r <= b }}
}

type kclass struct {
	neg   bool
	items []kitem
	sub   *kclass
}

func (c *kclass) String() string {
	s := "["
	if c.neg {
		s += "^"
	}
	for _, it := range c.items {
		s += it.text
	}
	if c.sub != nil {
		s += "-" + c.sub.String()
	}
	return s + "]"
}

// set algebra: the members named by the items (closed under simple case folding with IgnoreCase), complemented if
// negated, minus the subtracted class
func (c *kclass) has(r rune, mode int, ignoreCase bool) bool {
	in := false
	for _, it := range c.items {
		if it.has(r, mode) {
			in = true
		}
		if ignoreCase {
			for f := unicode.SimpleFold(r); f != r; f = unicode.SimpleFold(f) {
				if it.has(f, mode) {
					in = true
				}
			}
		}
	}
	if c.neg {
		in = !in
	}
	return in && !(c.sub != nil && c.sub.has(r, mode, ignoreCase))
}

func TestStandinClass(t *testing.T) {
	level := factsEnvInt("STANDIN_EXEC_LEVEL", 1)
	x := &xrun{show: factsEnvInt("STANDIN_FACTS_SHOW", 8)}
	items := []kitem{klit('a'), klit('z'), klit('A'), klit('0'), klit('_'), klit('-'), klit('é'), klit('\u007f'), krange('a', 'c'), krange('A', 'C'), krange('x', 'z'), krange('0', '5'), krange(' ', '/'), krange('\u0000', 'a'),
		{`\d`, kdigit}, {`\D`, func(r rune, m int) bool { return !kdigit(r, m) }}, {`\w`, kword}, {`\W`, func(r rune, m int) bool { return !kword(r, m) }},
		{`\s`, kspace}, {`\S`, func(r rune, m int) bool { return !kspace(r, m) }}}
	// Unicode categories (default mode) and POSIX names (RE2 mode)
	cased := func(r rune) bool { return unicode.IsLower(r) || unicode.IsUpper(r) || unicode.IsTitle(r) }
	catItems := []kitem{{`\p{Ll}`, func(r rune, m int) bool { return unicode.Is(unicode.Ll, r) }}, {`\p{Lu}`, func(r rune, m int) bool { return unicode.Is(unicode.Lu, r) }},
		{`\P{L}`, func(r rune, m int) bool { return !unicode.IsLetter(r) }}, {`\p{Nd}`, func(r rune, m int) bool { return unicode.Is(unicode.Nd, r) }}, {`\P{Nd}`, func(r rune, m int) bool { return !unicode.Is(unicode.Nd, r) }}}
	_ = cased
	posixItems := []kitem{{`[:alpha:]`, func(r rune, m int) bool { return kascii(r) && unicode.IsLetter(r) }}, {`[:^alpha:]`, func(r rune, m int) bool { return !(kascii(r) && unicode.IsLetter(r)) }},
		{`[:digit:]`, func(r rune, m int) bool { return r >= '0' && r <= '9' }}, {`[:^digit:]`, func(r rune, m int) bool { return !(r >= '0' && r <= '9') }},
		{`[:space:]`, func(r rune, m int) bool { return r == ' ' || (r >= '\t' && r <= '\r') }}, {`[:upper:]`, func(r rune, m int) bool { return r >= 'A' && r <= 'Z' }},
		{`[:word:]`, func(r rune, m int) bool { return kword(r, 2) }}, {`[:punct:]`, func(r rune, m int) bool { return kascii(r) && unicode.IsPunct(r) || kascii(r) && unicode.IsSymbol(r) }}}
	subs := []*kclass{nil, {items: []kitem{klit('b')}}, {items: []kitem{klit('B')}}, {items: []kitem{krange('a', 'b')}}, {items: []kitem{{`\d`, kdigit}}}, {neg: true, items: []kitem{klit('a')}},
		{items: []kitem{krange('a', 'z')}, sub: &kclass{items: []kitem{klit('c')}}}}
	var classes []*kclass
	only := map[*kclass]int{} // class -> the one mode whose syntax it uses (0 = any)
	gen := func(pool []kitem, extra []kitem, mode int) {
		for _, neg := range []bool{false, true} {
			for _, sub := range subs {
				for i, a := range extra {
					c := &kclass{neg: neg, items: []kitem{a}, sub: sub}
					classes = append(classes, c)
					only[c] = mode
					for j, b := range pool {
						if level < 2 && mode == 0 && (i+j)%2 == 1 {
							continue
						}
						c := &kclass{neg: neg, items: []kitem{a, b}, sub: sub}
						classes = append(classes, c)
						only[c] = mode
						if mode != 0 && (i+j)%3 == 0 {
							c := &kclass{neg: neg, items: []kitem{b, a}, sub: sub}
							classes = append(classes, c)
							only[c] = mode
						}
					}
				}
			}
		}
	}
	gen(items, items, 0)
	gen(append(append([]kitem(nil), items...), catItems...), catItems, 10) // default-mode syntax only
	gen(append(append([]kitem(nil), items[:14]...), posixItems...), posixItems, 12) // RE2 syntax only
	var universe []rune
	for r := rune(0); r < 128; r++ {
		universe = append(universe, r)
	}
	universe = append(universe, 0x80, 0x85, 0xA0, 0xC9, 0xE9, 0xD7, 0xFF, 0x100, 0x3B1, 0x391, 0x434, 0x414, 0x660, 0x2028)
	type kopt struct {
		opt  RegexOptions
		sub  bool // class subtraction is available
		mode int
	}
	opts := []kopt{{None, true, 0}, {IgnoreCase, true, 0}, {ECMAScript, false, 1}, {IgnoreCase | ECMAScript, false, 1}, {RightToLeft, true, 0}, {RE2, false, 2}, {RE2 | IgnoreCase, false, 2}}
	x.patterns = len(classes)
	var nodes []xnode
	for i := range classes {
		nodes = append(nodes, xatom{s: fmt.Sprint(i)})
	}
	xparallel(nodes, func(nd xnode) {
		var idx int
		fmt.Sscan(nd.fwd(), &idx)
		c := classes[idx]
		lc, lf, ln, ls := 0, 0, 0, 0
		for _, o := range opts {
			if c.sub != nil && !o.sub {
				continue
			}
			if m := only[c]; (m == 10 && o.mode != 0) || (m == 12 && o.mode != 2) {
				continue
			}
			if o.opt&IgnoreCase != 0 && only[c] == 10 {
				continue // \p{Ll} and friends mean "any cased letter" under IgnoreCase: a rule of its own, left out
			}
			if o.opt&IgnoreCase != 0 && strings.ContainsAny(c.String(), "WDSP^") {
				// the complement shorthands contain letters whose case mapping has no agreed meaning (U+0130, U+212A):
				// outside the property's domain under IgnoreCase
				continue
			}
			for _, shape := range []string{"^%s$", "^%s+$", "x?%s"} {
				pat := fmt.Sprintf(shape, c.String())
				re, err := Compile(pat, o.opt)
				if err != nil {
					ls++
					continue
				}
				for _, r := range universe {
					if r == 'x' || r == 'X' {
						continue
					}
					want := c.has(r, o.mode, o.opt&IgnoreCase != 0)
					got, err := re.MatchRunes([]rune{r})
					lc++
					if want {
						lf++
					} else {
						ln++
					}
					if err != nil || got != want {
						x.report("K-member", fmt.Sprintf("pattern=%q options=%d rune=%q (U+%04X): the engine says %v (%v), set algebra says %v", pat, int(o.opt), string(r), r, got, err, want))
					}
				}
			}
		}
		x.mu.Lock()
		x.cases += lc
		x.found += lf
		x.failed += ln
		x.skipped += ls
		x.mu.Unlock()
	})
	x.finish(t)
}
