#!/bin/bash
exec "$(dirname "$0")/run.sh" C15 "$@" bm exec:mirror
