package regexp2

// Bounded stand-in for the Replace / ReplaceFunc drivers (replaceRunnerLTR, replaceRunnerRTL, the evaluator loops of
// replace) and for the piece structure of Split, which the deductive part of C09 covers only partly (replacement
// parsing, one expansion step, Split's index safety): the drivers are loops over FindNextMatch with string builders
// and are not under contract.
// The executable contract is the property itself: the result is the fold of the match sequence. The match sequence is
// taken from the public iteration (FindStringMatchStartingAt, FindNextMatch: C07), the expansion of a replacement is
// computed from the match by a few lines of code here. Replacement strings are built from tokens whose meaning does
// not depend on the replacement parser's disambiguation rules ($&, $`, $', $_, $+, $$, ${1}, ${A}, literals), so the
// oracle does not re-implement that parser.
//   R-fold   Replace(input, r, startAt, count) == fold;  ReplaceFunc with the oracle expansion as evaluator == fold
//   R-ident  Replace with $& is the identity
//   S-fold   Split(input, count) == text between successive matches interleaved with the groups' texts; re-joining the
//            pieces with the matched texts rebuilds the input
// Labelled "bounded" in the evidence; never counted as proved.

import (
	"fmt"
	"strings"
	"testing"
)

type rtoken struct {
	spell string
	exp   func(m *Match, input []rune) string
}

func rGroupText(m *Match, name string) string {
	if g := m.GroupByName(name); g != nil {
		return g.String()
	}
	return ""
}

var rTokens = []rtoken{
	{"x", func(m *Match, in []rune) string { return "x" }},
	{"", func(m *Match, in []rune) string { return "" }},
	{"$&", func(m *Match, in []rune) string { return string(in[m.RuneIndex : m.RuneIndex+m.RuneLength]) }},
	{"$`", func(m *Match, in []rune) string { return string(in[:m.RuneIndex]) }},
	{"$'", func(m *Match, in []rune) string { return string(in[m.RuneIndex+m.RuneLength:]) }},
	{"$_", func(m *Match, in []rune) string { return string(in) }},
	{"$$", func(m *Match, in []rune) string { return "$" }},
	{"[", func(m *Match, in []rune) string { return "[" }},
	{"${0}", func(m *Match, in []rune) string { return string(in[m.RuneIndex : m.RuneIndex+m.RuneLength]) }},
}

// tokens that need groups 1 and A in the pattern
var rGroupTokens = []rtoken{
	{"${1}", func(m *Match, in []rune) string { return rGroupText(m, "1") }},
	{"${A}", func(m *Match, in []rune) string { return rGroupText(m, "A") }},
	{"$+", func(m *Match, in []rune) string { gs := m.Groups(); return gs[len(gs)-1].String() }},
	{"$1-", func(m *Match, in []rune) string { return rGroupText(m, "1") + "-" }},
}

type rrepl struct {
	s   string
	exp func(m *Match, input []rune) string
}

func rReplacements(tokens []rtoken, level int) []rrepl {
	var out []rrepl
	for _, a := range tokens {
		a := a
		out = append(out, rrepl{a.spell, a.exp})
	}
	for i, a := range tokens {
		for j, b := range tokens {
			if level < 2 && (i*7+j)%6 != 0 {
				continue // quick tier: a sixth of the two-token replacements
			}
			a, b := a, b
			if a.spell == "" || b.spell == "" {
				continue
			}
			out = append(out, rrepl{a.spell + b.spell, func(m *Match, in []rune) string { return a.exp(m, in) + b.exp(m, in) }})
		}
	}
	return out
}

type rpat struct {
	pat    string
	groups bool // has groups 1 and A
}

func rPatterns(level int) []rpat {
	full := factsItems([]string{"a", "b", "[ab]", "[^a]", ".", `\w`, "-"}, []string{"", "*", "+", "?", "*?", "+?", "{2}"})
	small := factsItems([]string{"a", "[ab]", "[^a]", "-"}, []string{"", "*", "+", "?"})
	var out []rpat
	for _, x := range full {
		out = append(out, rpat{x, false})
	}
	for _, x := range small {
		for _, y := range small {
			out = append(out, rpat{x + y, false}, rpat{x + "|" + y, false},
				rpat{"(" + x + ")(?<A>" + y + ")", true}, rpat{"(" + x + ")|(?<A>" + y + ")", true}, rpat{"(?<A>" + x + ")(" + y + ")?", true},
				rpat{"(?:(" + x + ")(?<A>" + y + "))+", true})
			if level >= 2 {
				out = append(out, rpat{`\b` + x + y, false}, rpat{x + "(?=" + y + ")", false}, rpat{"(?<=" + x + ")" + y, false}, rpat{"^" + x + y, false}, rpat{x + y + "$", false},
					rpat{"(" + x + ")(?<A>" + y + `)\1`, true}, rpat{"(?<A>" + x + ")*(" + y + ")", true})
			}
		}
	}
	for _, p := range []string{"", "a|", "(?:)", `\b`, "^", "$", "(?=a)", "(?<=a)", "a(?=b)|b", `\G-`, `\Ga`} {
		out = append(out, rpat{p, false})
	}
	for _, p := range []string{"(a)|(?<A>b)|-", "(?<A>a)?(b)?", "(?<A>(a)|b)+", "(a(?<A>b)?)+", "(?<A>a)(?<-A>b)(-)", "(-)?(?<A>)",
		// balancing groups whose stack keeps an older capture after the pop, more than one match per text
		"(-)?(?<-A>b)(?<A>a)+", "(-)?(?<-A>b)(?<A>a)(?<A>a)", "(?<-A>-)(?<A>a)(?<A>b)(b)?", "(?<A>a)+(?<-A>b)(-)?", "(?<A>a)(?<A>a)(?<-A>b)(-)?", "(?:(?<A>a)|(?<-A>b))+(-)", "(?<A>a)+(?<1-A>b)", "(?<A>[ab])+(?<-A>-)(b)?"} {
		out = append(out, rpat{p, true})
	}
	return out
}

func rByteOffsets(s string) []int {
	var off []int
	for i := range s {
		off = append(off, i)
	}
	return append(off, len(s))
}

// the matches Replace has to substitute: found from startAt (byte offset, -1 = default), at most count of them
func rMatches(re *Regexp, input string, startAt, count int) ([]*Match, error) {
	var ms []*Match
	var m *Match
	var err error
	if startAt < 0 {
		m, err = re.FindStringMatch(input)
	} else {
		m, err = re.FindStringMatchStartingAt(input, startAt)
	}
	for m != nil && err == nil && (count < 0 || len(ms) < count) {
		ms = append(ms, m)
		m, err = re.FindNextMatch(m)
	}
	return ms, err
}

func rFold(in []rune, ms []*Match, rtl bool, exp func(m *Match, input []rune) string) string {
	var sb strings.Builder
	if !rtl {
		prev := 0
		for _, m := range ms {
			sb.WriteString(string(in[prev:m.RuneIndex]))
			sb.WriteString(exp(m, in))
			prev = m.RuneIndex + m.RuneLength
		}
		sb.WriteString(string(in[prev:]))
		return sb.String()
	}
	// right to left: the matches come last first
	var parts []string
	prev := len(in)
	for _, m := range ms {
		parts = append(parts, string(in[m.RuneIndex+m.RuneLength:prev]), exp(m, in))
		prev = m.RuneIndex
	}
	parts = append(parts, string(in[:prev]))
	for i := len(parts) - 1; i >= 0; i-- {
		sb.WriteString(parts[i])
	}
	return sb.String()
}

func TestStandinReplace(t *testing.T) {
	maxText := factsEnvInt("STANDIN_EXEC_TEXT", 3)
	level := factsEnvInt("STANDIN_EXEC_LEVEL", 1)
	x := &xrun{show: factsEnvInt("STANDIN_FACTS_SHOW", 8)}
	var texts []string
	factsWords([]rune{'a', 'b', '-'}, maxText, func(w []rune) { texts = append(texts, string(w)) })
	texts = append(texts, "é-a", "aé", "ébé-", "a😀b", "-é-é", "ab-ab-", "aabbaa", "aab-aab", "aabaab-", "ab-bb-b")
	plain := rReplacements(rTokens, level)
	grouped := rReplacements(append(append([]rtoken(nil), rTokens[2:4]...), rGroupTokens...), level)
	pats := rPatterns(level)
	x.patterns = len(pats)
	var nodes []xnode
	for i := range pats {
		nodes = append(nodes, xatom{s: fmt.Sprint(i)})
	}
	xparallel(nodes, func(nd xnode) {
		var idx int
		fmt.Sscan(nd.fwd(), &idx)
		p := pats[idx]
		lc, lf, ln, ls := 0, 0, 0, 0
		repls := plain
		if p.groups {
			repls = append(append([]rrepl(nil), plain[:6]...), grouped...)
		}
		for _, opt := range []RegexOptions{None, RightToLeft} {
			re, err := Compile(p.pat, opt)
			if err != nil {
				ls++
				continue
			}
			rtl := opt&RightToLeft != 0
			for _, text := range texts {
				in := []rune(text)
				offs := rByteOffsets(text)
				starts := []int{-1, 0, offs[len(offs)/2], len(text)}
				if level >= 2 {
					starts = append([]int{-1}, offs...)
				}
				for _, startAt := range starts {
					for _, count := range []int{-1, 0, 1, 2} {
						ms, err := rMatches(re, text, startAt, count)
						if err != nil {
							x.report("R-fold", fmt.Sprintf("pattern=%q options=%d text=%q startAt=%d: iteration fails: %v", p.pat, int(opt), text, startAt, err))
							continue
						}
						if len(ms) > 0 {
							lf++
						} else {
							ln++
						}
						for ri, r := range repls {
							if count != -1 && ri%4 != 0 && level < 2 {
								continue // quick tier: limited counts see a quarter of the replacements
							}
							lc++
							want := rFold(in, ms, rtl, r.exp)
							got, err := re.Replace(text, r.s, startAt, count)
							if err != nil || got != want {
								x.report("R-fold", fmt.Sprintf("pattern=%q options=%d Replace(%q, %q, %d, %d) = %q (%v), fold of the match sequence gives %q", p.pat, int(opt), text, r.s, startAt, count, got, err, want))
							}
							got, err = re.ReplaceFunc(text, func(m Match) string { return r.exp(&m, in) }, startAt, count)
							if err != nil || got != want {
								x.report("R-fold", fmt.Sprintf("pattern=%q options=%d ReplaceFunc(%q, <%s>, %d, %d) = %q (%v), fold of the match sequence gives %q", p.pat, int(opt), text, r.s, startAt, count, got, err, want))
							}
						}
						if got, err := re.Replace(text, "$&", startAt, count); err != nil || got != text {
							x.report("R-ident", fmt.Sprintf("pattern=%q options=%d Replace(%q, \"$&\", %d, %d) = %q (%v)", p.pat, int(opt), text, startAt, count, got, err))
						}
					}
				}
				// Split: count -1 (all matches) and the documented "count limits the number of matches to process"
				for _, count := range []int{-1, 2, 3} {
					ms, err := rMatches(re, text, -1, count)
					if err != nil {
						continue
					}
					var want []string
					var rebuilt strings.Builder
					if len(ms) == 0 {
						want = []string{text}
					} else if !rtl {
						prev := 0
						for _, m := range ms {
							want = append(want, string(in[prev:m.RuneIndex]))
							for _, g := range m.Groups()[1:] {
								want = append(want, g.String())
							}
							prev = m.RuneIndex + m.RuneLength
						}
						want = append(want, string(in[prev:]))
					} else {
						prev := len(in)
						var back [][]string
						for _, m := range ms {
							piece := []string{string(in[m.RuneIndex+m.RuneLength : prev])}
							// collected back to front: the groups of a match come out in reverse as well
							var gs []string
							for _, g := range m.Groups()[1:] {
								gs = append(gs, g.String())
							}
							back = append(back, piece, gs)
							prev = m.RuneIndex
						}
						want = []string{string(in[:prev])}
						for i := len(back) - 1; i >= 0; i-- {
							for j := len(back[i]) - 1; j >= 0; j-- {
								want = append(want, back[i][j])
							}
						}
					}
					_ = rebuilt
					got, err := re.Split(text, count)
					lc++
					if err != nil || strings.Join(got, "\x00") != strings.Join(want, "\x00") || len(got) != len(want) {
						x.report("S-fold", fmt.Sprintf("pattern=%q options=%d Split(%q, %d) = %q (%v), the match sequence gives %q", p.pat, int(opt), text, count, got, err, want))
					}
				}
			}
		}
		x.mu.Lock()
		x.cases += lc
		x.found += lf
		x.failed += ln
		x.skipped += ls
		x.mu.Unlock()
	})
	x.finish(t)
}

// TestStandinHistory (C12): results are independent of call history. A used Regexp goes through a fixed rotation of
// public calls on changing texts (so that pooled runners, recycled matches, the quick program and the replacement
// cache are all exercised); every call's result must equal the same call on a Regexp compiled fresh for that call.
func TestStandinHistory(t *testing.T) {
	level := factsEnvInt("STANDIN_EXEC_LEVEL", 1)
	x := &xrun{show: factsEnvInt("STANDIN_FACTS_SHOW", 8)}
	var texts []string
	factsWords([]rune{'a', 'b', '-'}, 3, func(w []rune) { texts = append(texts, string(w)) })
	texts = append(texts, "é-a", "ab-ab-", "aabbaa", "aab-aab", "a😀b")
	type call struct {
		name string
		run  func(re *Regexp, s string) string
	}
	show := func(m *Match, err error) string {
		if err != nil {
			return "error " + err.Error()
		}
		if m == nil {
			return "no match"
		}
		return fmt.Sprintf("%d+%d %s", m.RuneIndex, m.RuneLength, factsSignature(m))
	}
	calls := []call{
		{"MatchString", func(re *Regexp, s string) string { ok, err := re.MatchString(s); return fmt.Sprint(ok, err) }},
		{"FindStringMatch", func(re *Regexp, s string) string { return show(re.FindStringMatch(s)) }},
		{"FindAllStringIndex", func(re *Regexp, s string) string { v, err := re.FindAllStringIndex(s, -1); return fmt.Sprint(v, err) }},
		{"Replace", func(re *Regexp, s string) string { v, err := re.Replace(s, "[$&|$1]", -1, -1); return fmt.Sprint(v, err) }},
		{"MatchRunes", func(re *Regexp, s string) string { ok, err := re.MatchRunes([]rune(s)); return fmt.Sprint(ok, err) }},
		{"FindRunesMatch+Next", func(re *Regexp, s string) string {
			m, err := re.FindRunesMatch([]rune(s))
			out := show(m, err)
			for i := 0; m != nil && err == nil && i < 6; i++ {
				m, err = re.FindNextMatch(m)
				out += " / " + show(m, err)
			}
			return out
		}},
		{"Split", func(re *Regexp, s string) string { v, err := re.Split(s, -1); return fmt.Sprintf("%q %v", v, err) }},
		{"ReplaceFunc", func(re *Regexp, s string) string {
			v, err := re.ReplaceFunc(s, func(m Match) string { return "<" + m.String() + ">" }, -1, 2)
			return fmt.Sprint(v, err)
		}},
		{"FindAllRunesIndex", func(re *Regexp, s string) string { v, err := re.FindAllRunesIndex([]rune(s), 2); return fmt.Sprint(v, err) }},
	}
	pats := rPatterns(level)
	if level < 2 {
		// quick tier: every fifth pattern and a third of the texts (a fresh Regexp is compiled for every single call)
		var sel []rpat
		for i, p := range pats {
			if i%5 == 0 || i >= len(pats)-16 {
				sel = append(sel, p)
			}
		}
		pats = sel
		var st []string
		for i, s := range texts {
			if i%3 == 0 || i >= len(texts)-5 {
				st = append(st, s)
			}
		}
		texts = st
	}
	x.patterns = len(pats)
	var nodes []xnode
	for i := range pats {
		nodes = append(nodes, xatom{s: fmt.Sprint(i)})
	}
	xparallel(nodes, func(nd xnode) {
		var idx int
		fmt.Sscan(nd.fwd(), &idx)
		p := pats[idx]
		lc, lf, ln, ls := 0, 0, 0, 0
		for _, opt := range []RegexOptions{None, RightToLeft, IgnoreCase} {
			used, err := Compile(p.pat, opt)
			if err != nil {
				ls++
				continue
			}
			for round, text := range texts {
				// a different call order in every round
				for k := range calls {
					c := calls[(k*5+round)%len(calls)]
					fresh, _ := Compile(p.pat, opt)
					got, want := c.run(used, text), c.run(fresh, text)
					lc++
					if strings.HasPrefix(want, "true") || strings.Contains(want, "+") {
						lf++
					} else {
						ln++
					}
					if got != want {
						x.report("H-history", fmt.Sprintf("pattern=%q options=%d %s(%q) on a used Regexp gives %s, on a fresh one %s", p.pat, int(opt), c.name, text, got, want))
					}
				}
			}
		}
		x.mu.Lock()
		x.cases += lc
		x.found += lf
		x.failed += ln
		x.skipped += ls
		x.mu.Unlock()
	})
	x.finish(t)
}
