#!/bin/bash
exec "$(dirname "$0")/run.sh" C02 "$@" facts exec:replace
