#!/bin/bash
# usage: run.sh <prop> <tier> <extra-json-out> <standin>...   run several bounded stand-ins, merge their "bounded" records
HERE=$(cd "$(dirname "$0")" && pwd)
prop=$1; tier=$2; out=$3; shift 3
rc=0; parts=()
for s in "$@"; do
  t=$(mktemp); parts+=("$t")
  "$HERE/${s%%:*}.sh" "$prop" "$tier" "$t" $(case "$s" in *:*) echo "${s#*:}";; esac); r=$?
  if [ $r -eq 1 ]; then rc=1; elif [ $r -ne 0 ] && [ $rc -eq 0 ]; then rc=$r; fi
done
python3 - "$out" "${parts[@]}" <<'PY'
import json,sys
b=[]
for p in sys.argv[2:]:
    try: b+=json.load(open(p)).get("bounded",[])
    except Exception: pass
json.dump({"bounded":b},open(sys.argv[1],"w"))
PY
rm -f "${parts[@]}"
exit $rc
