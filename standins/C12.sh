#!/bin/bash
exec "$(dirname "$0")/run.sh" C12 "$@" exec:history
