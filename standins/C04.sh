#!/bin/bash
exec "$(dirname "$0")/run.sh" C04 "$@" facts
