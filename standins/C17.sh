#!/bin/bash
exec "$(dirname "$0")/run.sh" C17 "$@" exec:groups
