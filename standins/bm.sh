#!/bin/bash
# usage: bm.sh <prop> <tier> <extra-json-out>
# Bounded stand-in for the trusted contract of syntax.(*BmPrefix).Scan: runs standins/bm_standin_test.go inside
# /repo/syntax (go test -overlay; nothing is written to the repository), rebuilt from the working tree.
HERE=$(cd "$(dirname "$0")/.." && pwd)
. "$HERE/scripts/goenv.sh"
REPO=${REPO:-/repo}; prop=$1; tier=$2; out=$3
if [ "$tier" = thorough ]; then export STANDIN_BM_PAT=4 STANDIN_BM_TEXT=6; else export STANDIN_BM_PAT=4 STANDIN_BM_TEXT=5; fi
tmp=$(mktemp -d); trap 'rm -rf "$tmp"' EXIT
printf '{"Replace":{"%s/syntax/zz_verif_standin_test.go":"%s/standins/bm_standin_test.go"}}' "$REPO" "$HERE" > "$tmp/ov.json"
t0=$(date +%s.%N)
res=$(cd "$REPO/syntax" && go test -tags verif -overlay "$tmp/ov.json" -vet=off -count=1 -timeout 600s -v -run 'TestStandinBM$' . 2>&1)
rc=$?
secs=$(echo "$(date +%s.%N) - $t0" | bc)
cases=$(echo "$res" | grep -o 'STANDIN-CASES [0-9]*' | awk '{print $2}'); cases=${cases:-0}
REPL=${REPL:-$HERE/replays}; mkdir -p "$REPL/$prop"
status=held
if [ $rc -ne 0 ] || [ "$cases" = 0 ]; then
  status=failed
  f="$REPL/$prop/syntax.BmPrefix.Scan-bounded-standin.json"
  python3 - "$f" "$prop" <<PY
import json,sys
json.dump({"property":sys.argv[2],"obligation":"syntax.(*BmPrefix).Scan#bounded-standin","kind":"bounded stand-in","outcome":"confirmed" if "STANDIN-MISMATCH" in """$res""" else "stand-in did not run","output":"""$res"""[-3000:]},open(sys.argv[1],"w"),indent=1)
PY
  if echo "$res" | grep -q STANDIN-MISMATCH; then
    echo "$res" | grep STANDIN-MISMATCH | head -3
    echo "VIOLATION property=$prop replay=$f obligation=syntax.(*BmPrefix).Scan#bounded-standin status=refuted confirmed"
  else
    echo "$res" | tail -5
    echo "ENGINE-ERROR bounded stand-in for syntax.(*BmPrefix).Scan did not run"
  fi
fi
python3 - "$out" "$cases" "$secs" "$status" <<'PY'
import json,sys,os
out,cases,secs,status=sys.argv[1:5]
json.dump({"bounded":[{"function":"syntax.(*BmPrefix).Scan (with newBmPrefix's tables)","labelled":"bounded - not counted as proved",
 "bound":"patterns of length 1..%s and texts of length 0..%s over {a,b,A,U+00E9,U+0100,U+1F600}, every start index, both directions, both case modes"%(os.environ.get("STANDIN_BM_PAT"),os.environ.get("STANDIN_BM_TEXT")),
 "cases":int(cases),"seconds":float(secs),"result":status,"checks":"Scan == naive first occurrence (the trusted contract of Scan)"}]},open(out,"w"))
PY
[ "$status" = held ] && exit 0
echo "$res" | grep -q STANDIN-MISMATCH && exit 1
exit 2
