#!/bin/bash
exec "$(dirname "$0")/run.sh" C16 "$@" exec:class
