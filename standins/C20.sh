#!/bin/bash
exec "$(dirname "$0")/run.sh" C20 "$@" exec:case
