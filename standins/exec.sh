#!/bin/bash
# usage: exec.sh <prop> <tier> <extra-json-out> <mirror|case>
# Bounded stand-ins for two executable contracts of the interpreter (executeDefault and the opcode flags the writer
# sets), which no deductive contract reaches: the right-to-left mirror relation (C15) and case invariance under
# IgnoreCase (C20). Runs standins/exec_standin_test.go inside /repo (go test -overlay; nothing is written to the
# repository), rebuilt from the working tree. Mismatches on patterns listed in known_findings.json (field
# standin_pattern) are printed as KNOWN-FINDING and do not fail the run.
HERE=$(cd "$(dirname "$0")/.." && pwd)
. "$HERE/scripts/goenv.sh"
REPO=${REPO:-/repo}; prop=$1; tier=$2; out=$3; which=$4
if [ "$tier" = thorough ]; then export STANDIN_EXEC_TEXT=${STANDIN_EXEC_TEXT:-4} STANDIN_EXEC_LEVEL=${STANDIN_EXEC_LEVEL:-2}; else export STANDIN_EXEC_TEXT=3 STANDIN_EXEC_LEVEL=1; fi
# the case stand-in multiplies every text by its case variants: one rune less at the thorough level
if [ "$tier" = thorough ] && [ "$4" = case ]; then export STANDIN_EXEC_TEXT=3; fi
export GOGC=400
if [ "$tier" = thorough ]; then STANDIN_TIMEOUT=7000; else STANDIN_TIMEOUT=1500; fi
case "$which" in
  mirror)  test=TestStandinMirror;  obl="regexp2.executeDefault#bounded-standin-mirror";;
  case)    test=TestStandinCase;    obl="regexp2.executeDefault#bounded-standin-case";;
  replace) test=TestStandinReplace; obl="regexp2.replace#bounded-standin";;
  groups)  test=TestStandinGroups;  obl="syntax.parser#bounded-standin-groups";;
  stack)   test=TestStandinStack;   obl="regexp2.executeDefault#bounded-standin-stack";;
  class)   test=TestStandinClass;   obl="syntax.scanCharSet#bounded-standin-class";;
  history) test=TestStandinHistory; obl="regexp2.Regexp#bounded-standin-history";;
  *) echo "ENGINE-ERROR unknown stand-in $which"; exit 2;;
esac
export STANDIN_KNOWN=$(python3 - "$HERE/known_findings.json" "$prop" "$obl" <<'PY'
import json,sys
try: d=json.load(open(sys.argv[1]))
except Exception: d={}
print("\n".join(f["standin_pattern"] for f in d.get("findings",[]) if f.get("property")==sys.argv[2] and f.get("obligation")==sys.argv[3] and f.get("status","open")!="fixed" and f.get("standin_pattern")))
PY
)
tmp=$(mktemp -d); trap 'rm -rf "$tmp"' EXIT
printf '{"Replace":{"%s/zz_verif_standin_test.go":"%s/standins/facts_standin_test.go","%s/zz_verif_standin2_test.go":"%s/standins/exec_standin_test.go","%s/zz_verif_standin3_test.go":"%s/standins/repl_standin_test.go","%s/zz_verif_standin4_test.go":"%s/standins/groups_standin_test.go"}}' "$REPO" "$HERE" "$REPO" "$HERE" "$REPO" "$HERE" "$REPO" "$HERE" > "$tmp/ov.json"
t0=$(date +%s.%N)
res=$(cd "$REPO" && go test -tags verif -overlay "$tmp/ov.json" -vet=off -count=1 -timeout ${STANDIN_TIMEOUT}s -v -run "$test\$" . 2>&1)
rc=$?
secs=$(echo "$(date +%s.%N) - $t0" | bc)
cases=$(echo "$res" | grep -o 'STANDIN-CASES [0-9]*' | awk '{print $2}'); cases=${cases:-0}
export STANDIN_PATS=$(echo "$res" | grep -o 'STANDIN-PATTERNS [0-9]*' | awk '{print $2}')
REPL=${REPL:-$HERE/replays}; mkdir -p "$REPL/$prop"
known=$(echo "$res" | grep '^STANDIN-KNOWN' | sed 's/^STANDIN-KNOWN //')
if [ -n "$known" ]; then
  echo "$known" | while read -r l; do echo "KNOWN-FINDING: property=$prop $obl: $l"; done
fi
status=held
if [ $rc -ne 0 ] || [ "$cases" = 0 ]; then
  status=failed
  f="$REPL/$prop/$(echo "$obl" | tr '#' '-').json"
  printf '%s' "$res" | tail -c 4000 > "$tmp/res.txt"
  python3 - "$f" "$prop" "$tmp/res.txt" "$obl" <<'PY'
import json,sys
res=open(sys.argv[3]).read()
json.dump({"property":sys.argv[2],"obligation":sys.argv[4],"kind":"bounded stand-in","outcome":"confirmed" if "STANDIN-MISMATCH" in res else "stand-in did not run","output":res},open(sys.argv[1],"w"),indent=1)
PY
  if echo "$res" | grep -q STANDIN-MISMATCH; then
    echo "$res" | grep STANDIN-MISMATCH | head -3 | cut -c1-400
    echo "VIOLATION property=$prop replay=$f obligation=$obl status=refuted confirmed"
  else
    echo "$res" | tail -5
    echo "ENGINE-ERROR bounded stand-in $obl did not run"
  fi
fi
python3 - "$out" "$cases" "$secs" "$status" "$which" "$known" <<'PY'
import json,sys,os
out,cases,secs,status,which,known=sys.argv[1:7]
lvl=int(os.environ.get("STANDIN_EXEC_LEVEL")); n=int(os.environ.get("STANDIN_EXEC_TEXT")); pats=int(os.environ.get("STANDIN_PATS") or 0)
if which=="mirror":
    rec={"function":"executeDefault (right-to-left arms against left-to-right arms), with the parser/reducer/writer in front of it",
     "bound":"%d patterns from an abstract syntax with a mirror operation (items = atom a b [ab] [^a] . \\w - \\d [^ab] \\W \\s [a-] 1 (?:a|-) [\\w-[a]] x quantifier none * + ? *? +? {2} {1,2} ??; 1-2 items, 3-item sequences and alternations over %s, literals before/after an item, quantified groups (also item+literal bodies), named captures (nested, alternated, looped), atomic groups, ^ $ \\A \\z \\b \\B \\G, the four lookarounds, named backreferences); options None, IgnoreCase, Multiline%s; every text over {a,b,-,1} (over {a,-,\\n} for Multiline) of length 0..%d plus 13 longer texts; every start offset; both directions of the pair"%(pats,"20 items" if lvl>=2 else "12 items",", Singleline|Multiline, IgnoreCase|Multiline, ExplicitCapture" if lvl>=2 else "",n),
     "checks":"find(mirror(P), RightToLeft, reverse(text), n-s) is the mirror image of find(P, text, s): both fail or index' = n-index-length, same length, every capture of every named group mirrored, in the same order"}
elif which=="history":
    rec={"function":"state kept between calls on one Regexp (pooled runners and their recycled Match, the quick program, the replacement cache), as far as the Replace/Split drivers and the interpreter touch it",
     "bound":"%d patterns (%s of the replace stand-in's patterns), options None, RightToLeft, IgnoreCase; %s texts over {a,b,-} of length 0..3 plus 5 longer ones; nine public calls (MatchString, FindStringMatch, FindAllStringIndex, Replace, MatchRunes, FindRunesMatch+FindNextMatch, Split, ReplaceFunc, FindAllRunesIndex) in an order that changes from text to text"%(pats,"all" if lvl>=2 else "a fifth","all" if lvl>=2 else "a third of the"),
     "checks":"every call on the used Regexp returns what the same call returns on a Regexp compiled fresh for that call"}
elif which=="class":
    rec={"function":"the class parser (scanCharSet, shorthand escapes, negation, subtraction) and the IgnoreCase closure of classes, up to the CharSet the proofs of C16 start from",
     "bound":"%d class expressions: one or two items out of a z A 0 _ - U+00E9 U+007F a-c A-C x-z 0-5 space-/ U+0000-a \\d \\D \\w \\W \\s \\S (%s two-item combinations), in default mode also \\p{Ll} \\p{Lu} \\P{L} \\p{Nd} \\P{Nd}, in RE2 mode also eight POSIX names (plain and negated), plain and negated, without and with one of six subtracted classes (one of them with its own subtraction); shapes ^C$, ^C+$, x?C; options None, IgnoreCase, ECMAScript, IgnoreCase|ECMAScript, RightToLeft, RE2, RE2|IgnoreCase (subtraction where the syntax has it; complements and categories left out under IgnoreCase, where the case mapping of U+0130 and U+212A has no agreed meaning); every rune of U+0000..U+007F and fourteen runes above"%(pats,"all" if lvl>=2 else "half of the"),
     "checks":"the engine matches the one-rune text exactly when set algebra over the parts of the expression says the rune is a member (items united, closed under simple case folding with IgnoreCase, complemented if negated, minus the subtracted class)"}
elif which=="stack":
    rec={"function":"executeDefault with a backtracking stack limit (the interpreter's push/pop discipline between two calls of ensureStorage, unwinding after a capped growth step)",
     "bound":"%d patterns (%s of the mirror grammar's patterns plus 8 hand-picked backtracking-heavy ones), both directions; every text over {a,b,-} of length 0..3 plus 6 longer texts; limits 0 1 2 7 8 9 31 32 33 63 64 65 66 100 127 128 129 200 257 1000 against the unlimited run"%(pats,"all" if lvl>=2 else "every fourth"),
     "checks":"with a limit the call returns exactly what the unlimited call returns or ErrBacktrackingStackLimit, never another error or a panic; a larger limit never turns a success into the stack-limit error; after any such call the same Regexp answers a further call like a fresh one"}
elif which=="groups":
    rec={"function":"the parser's capture numbering (countCaptures, scanGroupOpen, noteCaptureSlot, noteCaptureName, assignNameSlots, assignOrderedNameSlots) and the tables the writer derives from it",
     "bound":"%d patterns: every sequence of 1..%d groups of the kinds unnamed, named n, named m, numbered 1, 2, 3 and 5, non-capturing, (?P<n>, and the inline switches (?n) and (?-n), flat and with the first or second group wrapping its successor, group i matching its own letter; modes default, ExplicitCapture, RE2, ECMAScript, MaintainCaptureOrder, RE2+MaintainCaptureOrder, RightToLeft, IgnoreCase+MaintainCaptureOrder"%(pats,4 if lvl>=2 else 3),
     "checks":"numbers and names are those of the documented rule and each number holds the text of the parentheses the rule assigns to it; GetGroupNames/GetGroupNumbers/GroupNameFromNumber/GroupNumberFromName agree and numbers ascend; Match.Groups is in table order with the table's names and GroupByName/GroupByNumber return those groups; \\k<name> and \\number re-match exactly the group's text; ${name} and ${number} expand to it"}
elif which=="replace":
    rec={"function":"replace, replaceRunnerLTR, replaceRunnerRTL (Replace / ReplaceFunc drivers) and the piece structure of Split",
     "bound":"%d patterns (items over a b [ab] [^a] . \\w - with quantifiers none * + ? *? +? {2}; pairs and alternations of 16 items; four capture shapes with an unnamed group 1 and a named group A%s; empty-matching and anchor-only patterns; balancing and optional groups), both directions; every text over {a,b,-} of length 0..%d plus 10 longer texts, some with 2- and 4-byte runes; startAt -1, 0, middle, end%s; count -1, 0, 1, 2; replacements of one or two tokens out of x, empty, $&, $`, $', $_, $$, [, ${0}, and for patterns with groups ${1}, ${A}, $+, $1-"%(pats,"; anchors, lookarounds, backreference" if lvl>=2 else "",n," (thorough: every rune boundary)" if lvl>=2 else ""),
     "checks":"Replace(input, r, startAt, count) and ReplaceFunc with the same expansion as evaluator equal the fold of the match sequence (FindStringMatchStartingAt + FindNextMatch, first count matches) with all other text kept; Replace with $& is the identity; Split(input, count) for count -1, 2, 3 equals the text between successive matches interleaved with the texts of groups 1.."}
else:
    rec={"function":"executeDefault under IgnoreCase, with the case handling of parser (addLowercase), tree (addCaseEquivalences), writer and the prefix finders in front of it",
     "bound":"%d patterns (atoms a b [ab] [^a] [a-b] [^a-b] [a-c-[b]] [\\w-[a]] [\\s\\S-[a]] [^ab] (?:a|-) [a-] (?:ab) [^\\W-[a]] [b-k-[c-j]] \\p{Ll} . - and Latin-1/Cyrillic letters, classes and ranges, x quantifier none * + ? {2}; 1-2 items%s, literals before/after an item, alternations, named backreferences, lookarounds, quantified groups, 11 hand-picked shapes); options IgnoreCase, IgnoreCase|RightToLeft%s; every text over {a,b,-,c} and over {U+00E9,U+0434,a,k} of length 0..%d plus 8 longer texts"%(pats,", 3-item sequences and xy|z with the third item out of 15" if lvl>=2 else "",", IgnoreCase|ECMAScript, IgnoreCase|RE2, IgnoreCase|Multiline" if lvl>=2 else "",n),
     "checks":"the result (position, length, every capture) is the same for every case variant of the text (all 2^k variants for texts up to 6 runes) and for the pattern with the case of its letters, class members and range endpoints flipped"}
rec.update({"labelled":"bounded - not counted as proved","cases":int(cases),"seconds":float(secs),"result":status})
if known: rec["known_findings"]=known.split("\n")
json.dump({"bounded":[rec]},open(out,"w"))
PY
[ "$status" = held ] && exit 0
echo "$res" | grep -q STANDIN-MISMATCH && exit 1
exit 2
