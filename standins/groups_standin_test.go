package regexp2

// Bounded stand-in for the parser side of C17 (countCaptures / scanGroupOpen / noteCaptureSlot / noteCaptureName /
// assignNameSlots and the tables RegexWriter derives from them): ~2500 lines of scanner the verifier does not reach;
// the deductive part of C17 covers the lookup side only and assumes the tables are well formed (GroupsWF).
// Every pattern is a sequence (optionally nested) of up to four groups of the kinds unnamed, named (two names, may
// repeat), explicitly numbered, Python-style named and non-capturing; group i matches its own letter, so the text of
// a group tells which parentheses produced it.
//   G-rule     the number of every group is the one the documented rule gives: unnamed groups by opening parenthesis,
//              explicitly numbered groups keep their number, named groups take the free numbers after them in order
//              of first appearance; pure pattern order with MaintainCaptureOrder; unnamed groups do not capture under
//              ExplicitCapture (the group with that number holds the text of those parentheses)
//   G-tables   GetGroupNames / GetGroupNumbers / GroupNameFromNumber / GroupNumberFromName agree, numbers ascend from 0
//   G-match    Match.Groups is in table order with the table's names; GroupByName and GroupByNumber return that group
//   G-backref  \k<name> and \<number> appended to the pattern re-match exactly that group's text
//   G-replace  ${name} and ${number} in a replacement expand to that group's text
// Labelled "bounded" in the evidence; never counted as proved.

import (
	"fmt"
	"strconv"
	"strings"
	"testing"
)

type gkind struct {
	kind string // "U" unnamed, "N" named, "E" explicit number, "P" python-style named, "X" non-capturing
	name string
}

type ggroup struct {
	gkind
	letter   byte
	children []*ggroup
}

func (g *ggroup) pattern() string {
	var sb strings.Builder
	switch g.kind {
	case "On":
		return "(?n)"
	case "Off":
		return "(?-n)"
	}
	switch g.kind {
	case "U":
		sb.WriteString("(")
	case "N", "E":
		sb.WriteString("(?<" + g.name + ">")
	case "P":
		sb.WriteString("(?P<" + g.name + ">")
	case "X":
		sb.WriteString("(?:")
	}
	sb.WriteByte(g.letter)
	for _, c := range g.children {
		sb.WriteString(c.pattern())
	}
	sb.WriteString(")")
	return sb.String()
}

func (g *ggroup) text() string {
	if g.kind == "On" || g.kind == "Off" {
		return ""
	}
	s := string(g.letter)
	for _, c := range g.children {
		s += c.text()
	}
	return s
}

// groups in order of their opening parenthesis
func (g *ggroup) walk(f func(*ggroup)) {
	f(g)
	for _, c := range g.children {
		c.walk(f)
	}
}

type gmode struct {
	name     string
	opt      RegexOptions
	maintain bool
}

// the documented numbering rule; returns number -> expected text of the group's last capture, and name -> number
func gOracle(top []*ggroup, mode gmode) (texts map[int]string, names map[string]int) {
	// groups in order of their opening parenthesis; an inline (?n) / (?-n) switches ExplicitCapture for the rest of
	// the enclosing group
	var all []*ggroup
	noCapture := map[*ggroup]bool{}
	var visit func(gs []*ggroup, explicit bool)
	visit = func(gs []*ggroup, explicit bool) {
		for _, g := range gs {
			switch g.kind {
			case "On":
				explicit = true
				continue
			case "Off":
				explicit = false
				continue
			}
			all = append(all, g)
			noCapture[g] = explicit
			visit(g.children, explicit)
		}
	}
	visit(top, mode.opt&ExplicitCapture != 0)
	texts = map[int]string{}
	names = map[string]int{}
	used := map[int]bool{0: true}
	num := map[*ggroup]int{}
	if mode.maintain {
		auto := 1
		for _, g := range all {
			switch g.kind {
			case "U":
				if noCapture[g] {
					continue
				}
				num[g] = auto
				used[auto] = true
				auto++
			case "N", "P":
				if n, ok := names[g.name]; ok {
					num[g] = n
				} else {
					names[g.name] = auto
					num[g] = auto
					used[auto] = true
					auto++
				}
			}
		}
	} else {
		auto := 1
		for _, g := range all {
			switch g.kind {
			case "U":
				if noCapture[g] {
					continue
				}
				num[g] = auto
				used[auto] = true
				auto++
			case "E":
				n, _ := strconv.Atoi(g.name)
				num[g] = n
				used[n] = true
			}
		}
		for _, g := range all {
			if g.kind != "N" && g.kind != "P" {
				continue
			}
			if n, ok := names[g.name]; ok {
				num[g] = n
				continue
			}
			for used[auto] {
				auto++
			}
			names[g.name] = auto
			num[g] = auto
			used[auto] = true
			auto++
		}
	}
	// the last capture of a number is the last group (in match order = closing order; for these patterns a nested
	// group closes before its parent) that carries it
	var closeOrder []*ggroup
	rtl := mode.opt&RightToLeft != 0
	var post func(gs []*ggroup)
	post = func(gs []*ggroup) {
		for i := range gs {
			g := gs[i]
			if rtl {
				g = gs[len(gs)-1-i] // matched from the right: the leftmost parentheses capture last
			}
			post(g.children)
			closeOrder = append(closeOrder, g)
		}
	}
	post(top)
	for _, g := range closeOrder {
		if n, ok := num[g]; ok {
			texts[n] = g.text()
		}
	}
	return texts, names
}

func gPatterns(level int) [][]*ggroup {
	kinds := []gkind{{"U", ""}, {"N", "n"}, {"N", "m"}, {"E", "1"}, {"E", "2"}, {"E", "3"}, {"E", "5"}, {"X", ""}, {"P", "n"}, {"On", ""}, {"Off", ""}}
	var out [][]*ggroup
	maxLen := 3
	if level >= 2 {
		maxLen = 4
	}
	var rec func(cur []gkind)
	rec = func(cur []gkind) {
		if len(cur) > 0 {
			// flat
			mk := func() []*ggroup {
				var gs []*ggroup
				for i, k := range cur {
					gs = append(gs, &ggroup{gkind: k, letter: byte('a' + i)})
				}
				return gs
			}
			out = append(out, mk())
			// the first group wraps the second; the second wraps the third
			if len(cur) >= 2 && cur[0].kind != "On" && cur[0].kind != "Off" {
				gs := mk()
				gs[0].children = []*ggroup{gs[1]}
				out = append(out, append([]*ggroup{gs[0]}, gs[2:]...))
			}
			if len(cur) >= 3 && cur[1].kind != "On" && cur[1].kind != "Off" {
				gs := mk()
				gs[1].children = []*ggroup{gs[2]}
				out = append(out, append([]*ggroup{gs[0], gs[1]}, gs[3:]...))
			}
		}
		if len(cur) == maxLen {
			return
		}
		for _, k := range kinds {
			rec(append(append([]gkind(nil), cur...), k))
		}
	}
	rec(nil)
	// more than nine groups: two-digit references
	for _, named := range []int{-1, 4, 10} {
		var gs []*ggroup
		for i := 0; i < 11; i++ {
			k := gkind{"U", ""}
			if i == named {
				k = gkind{"N", "n"}
			}
			gs = append(gs, &ggroup{gkind: k, letter: byte('a' + i)})
		}
		out = append(out, gs)
	}
	return out
}

func gCaptures(g *Group) string {
	var sb strings.Builder
	for _, c := range g.Captures {
		fmt.Fprintf(&sb, "%d+%d,", c.RuneIndex, c.RuneLength)
	}
	return sb.String()
}

func TestStandinGroups(t *testing.T) {
	level := factsEnvInt("STANDIN_EXEC_LEVEL", 1)
	x := &xrun{show: factsEnvInt("STANDIN_FACTS_SHOW", 8)}
	modes := []gmode{{"default", None, false}, {"ExplicitCapture", ExplicitCapture, false}, {"RE2", RE2, false}, {"ECMAScript", ECMAScript, false},
		{"MaintainCaptureOrder", None, true}, {"RE2+MaintainCaptureOrder", RE2, true}, {"RightToLeft", RightToLeft, false}, {"IgnoreCase+MaintainCaptureOrder", IgnoreCase, true}}
	pats := gPatterns(level)
	x.patterns = len(pats)
	var nodes []xnode
	for i := range pats {
		nodes = append(nodes, xatom{s: fmt.Sprint(i)})
	}
	xparallel(nodes, func(nd xnode) {
		var idx int
		fmt.Sscan(nd.fwd(), &idx)
		top := pats[idx]
		var pat, text string
		hasE, hasP := false, false
		for _, g := range top {
			pat += g.pattern()
			text += g.text()
			g.walk(func(q *ggroup) {
				hasE = hasE || q.kind == "E"
				hasP = hasP || q.kind == "P"
			})
		}
		lc, lf, ln, ls := 0, 0, 0, 0
		curMode := ""
		defer func() {
			if r := recover(); r != nil {
				panic(fmt.Sprintf("pattern=%q mode=%s text=%q: %v", pat, curMode, text, r)) // xguard reports it
			}
		}()
		for _, mode := range modes {
			curMode = mode.name
			if hasP && mode.opt&RE2 == 0 {
				continue // (?P<name> is RE2 syntax
			}
			compile := func(p string) (*Regexp, error) {
				if mode.maintain {
					return Compile(p, mode.opt, OptionMaintainCaptureOrder())
				}
				return Compile(p, mode.opt)
			}
			re, err := compile(pat)
			if err != nil {
				ls++
				continue
			}
			lc++
			where := fmt.Sprintf("pattern=%q mode=%s", pat, mode.name)
			key := mode.name + " " + pat
			report := func(kind, detail string) { x.reportPat(kind, key, detail) }
			names, nums := re.GetGroupNames(), re.GetGroupNumbers()
			// G-tables
			if len(names) != len(nums) || len(nums) == 0 || nums[0] != 0 {
				report("G-tables", fmt.Sprintf("%s: names %q numbers %v", where, names, nums))
				continue
			}
			for i := range nums {
				if i > 0 && nums[i] <= nums[i-1] {
					report("G-tables", fmt.Sprintf("%s: numbers %v do not ascend", where, nums))
				}
				if got := re.GroupNameFromNumber(nums[i]); got != names[i] {
					report("G-tables", fmt.Sprintf("%s: GroupNameFromNumber(%d) = %q, table says %q", where, nums[i], got, names[i]))
				}
				if got := re.GroupNumberFromName(names[i]); got != nums[i] && names[i] != "" {
					report("G-tables", fmt.Sprintf("%s: GroupNumberFromName(%q) = %d, table says %d", where, names[i], got, nums[i]))
				}
			}
			// G-rule (tables): the numbers and names in use are those of the rule. ECMAScript implies pattern order
			// in this port (documented on the option), so it is compared with the pattern-order rule.
			ruleMode := mode
			if mode.opt&ECMAScript != 0 {
				ruleMode.maintain = true
			}
			skipRule := ruleMode.maintain && hasE // the rule does not say how explicit numbers mix with pattern order
			wantText, wantNames := gOracle(top, ruleMode)
			if !skipRule {
				if len(wantText)+1 != len(nums) {
					report("G-rule", fmt.Sprintf("%s: numbers %v, the rule gives %d groups besides 0", where, nums, len(wantText)))
				}
				for n := range wantText {
					found := false
					for _, k := range nums {
						found = found || k == n
					}
					if !found {
						report("G-rule", fmt.Sprintf("%s: numbers %v lack %d", where, nums, n))
					}
				}
				for name, n := range wantNames {
					if got := re.GroupNumberFromName(name); got != n {
						report("G-rule", fmt.Sprintf("%s: group %q has number %d, the rule gives %d", where, name, got, n))
					}
				}
			}
			m, err := re.FindStringMatch(text)
			if err != nil || m == nil || m.String() != text {
				report("G-match", fmt.Sprintf("%s: does not match its own text %q (%v)", where, text, err))
				ln++
				continue
			}
			lf++
			gs := m.Groups()
			if len(gs) != len(nums) {
				report("G-match", fmt.Sprintf("%s: %d groups in the match, %d in the table", where, len(gs), len(nums)))
				continue
			}
			for i := range gs {
				g := &gs[i]
				if g.Name != names[i] {
					report("G-match", fmt.Sprintf("%s: Groups()[%d].Name = %q, table says %q", where, i, g.Name, names[i]))
				}
				if bn := m.GroupByNumber(nums[i]); bn == nil || bn.Name != g.Name || gCaptures(bn) != gCaptures(g) {
					report("G-match", fmt.Sprintf("%s: GroupByNumber(%d) differs from Groups()[%d]", where, nums[i], i))
				}
				if bn := m.GroupByName(names[i]); names[i] != "" && (bn == nil || bn.Name != g.Name || gCaptures(bn) != gCaptures(g)) {
					report("G-match", fmt.Sprintf("%s: GroupByName(%q) differs from Groups()[%d]", where, names[i], i))
				}
				if i == 0 {
					continue
				}
				s := g.String()
				if want, ok := wantText[nums[i]]; !skipRule && ok && s != want {
					report("G-rule", fmt.Sprintf("%s on %q: group %d (%q) holds %q, the rule puts the parentheses matching %q there", where, text, nums[i], names[i], s, want))
				}
				if len(g.Captures) == 0 {
					continue
				}
				// G-backref: by name and by number, must re-match exactly this group's text
				other := "z"
				refs := []string{`(?:\` + strconv.Itoa(nums[i]) + `)`}
				if names[i] != "" {
					refs = append(refs, `\k<`+names[i]+`>`)
				}
				for _, ref := range refs {
					// the reference has to be evaluated after the group: behind it left-to-right, in front of it right-to-left
					p2, yes, no := pat+ref+"$", text+s, text+other
					if mode.opt&RightToLeft != 0 {
						p2, yes, no = "^"+ref+pat, s+text, other+text
					}
					re2, err := compile(p2)
					if err != nil {
						report("G-backref", fmt.Sprintf("%s: %q does not compile: %v", where, p2, err))
						continue
					}
					if ok, _ := re2.MatchString(yes); !ok {
						report("G-backref", fmt.Sprintf("%s: %q does not match %q (the text of group %d is %q)", where, p2, yes, nums[i], s))
					}
					if ok, _ := re2.MatchString(no); ok {
						report("G-backref", fmt.Sprintf("%s: %q matches %q", where, p2, no))
					}
				}
				// G-replace
				rs := []string{"${" + strconv.Itoa(nums[i]) + "}", "$" + strconv.Itoa(nums[i])}
				if names[i] != "" {
					rs = append(rs, "${"+names[i]+"}")
				}
				for _, r := range rs {
					if got, err := re.Replace(text, "<"+r+">", -1, -1); err != nil || got != "<"+s+">" {
						report("G-replace", fmt.Sprintf("%s: Replace(%q, %q) = %q (%v), group %d holds %q", where, text, "<"+r+">", got, err, nums[i], s))
					}
				}
			}
		}
		x.mu.Lock()
		x.cases += lc
		x.found += lf
		x.failed += ln + 1 // patterns always match their own text; the vacuity guard of finish is not about this
		x.skipped += ls
		x.mu.Unlock()
	})
	x.finish(t)
}
