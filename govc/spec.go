package main

// Spec expression language: lexer, AST and parser.
//
// Grammar (Gobra-flavoured Go expressions):
//   expr    := quant | iff
//   quant   := ("forall"|"exists") binder {"," binder} "::" expr
//   binder  := ident {"," ident} type
//   iff     := impl ["<==>" impl]
//   impl    := or ["==>" impl]
//   or      := and {"||" and}
//   and     := cmp {"&&" cmp}
//   cmp     := add {relop add}          (chains a <= b < c are conjunctions)
//   add     := mul {("+"|"-") mul}
//   mul     := unary {("*"|"/"|"%") unary}
//   unary   := ("!"|"-"|"*") unary | postfix
//   postfix := primary {"." ident | "[" expr "]" | "[" [expr] ":" [expr] "]" | "(" args ")"}
//   primary := int | char | string | ident | "(" expr ")" | "let" ident ":=" expr "in" expr

import (
	"fmt"
	"strconv"
	"strings"
	"unicode"
)

type tokKind int

const (
	tEOF tokKind = iota
	tIdent
	tInt
	tChar
	tString
	tOp
)

type stok struct {
	k   tokKind
	s   string
	pos int
}

func lexSpec(src string) ([]stok, error) {
	var toks []stok
	i := 0
	for i < len(src) {
		c := src[i]
		switch {
		case c == ' ' || c == '\t' || c == '\n' || c == '\r':
			i++
		case c == '/' && i+1 < len(src) && src[i+1] == '/':
			// trailing comment
			for i < len(src) && src[i] != '\n' {
				i++
			}
		case unicode.IsLetter(rune(c)) || c == '_' || c == '$':
			j := i
			for j < len(src) && (unicode.IsLetter(rune(src[j])) || unicode.IsDigit(rune(src[j])) || src[j] == '_' || src[j] == '$') {
				j++
			}
			toks = append(toks, stok{tIdent, src[i:j], i})
			i = j
		case c >= '0' && c <= '9':
			j := i
			if c == '0' && j+1 < len(src) && (src[j+1] == 'x' || src[j+1] == 'X') {
				j += 2
				for j < len(src) && strings.ContainsRune("0123456789abcdefABCDEF_", rune(src[j])) {
					j++
				}
			} else {
				for j < len(src) && (src[j] >= '0' && src[j] <= '9' || src[j] == '_') {
					j++
				}
			}
			toks = append(toks, stok{tInt, src[i:j], i})
			i = j
		case c == '\'':
			j := i + 1
			for j < len(src) && src[j] != '\'' {
				if src[j] == '\\' {
					j++
				}
				j++
			}
			if j >= len(src) {
				return nil, fmt.Errorf("unterminated char literal at %d", i)
			}
			toks = append(toks, stok{tChar, src[i : j+1], i})
			i = j + 1
		case c == '"':
			j := i + 1
			for j < len(src) && src[j] != '"' {
				if src[j] == '\\' {
					j++
				}
				j++
			}
			if j >= len(src) {
				return nil, fmt.Errorf("unterminated string literal at %d", i)
			}
			toks = append(toks, stok{tString, src[i : j+1], i})
			i = j + 1
		default:
			ops := []string{"<==>", "==>", "::", ":=", "==", "!=", "<=", ">=", "&&", "||", "<<", ">>", "&^"}
			matched := false
			for _, op := range ops {
				if strings.HasPrefix(src[i:], op) {
					toks = append(toks, stok{tOp, op, i})
					i += len(op)
					matched = true
					break
				}
			}
			if !matched {
				if strings.ContainsRune("+-*/%<>!()[].,:&|^{}", rune(c)) {
					toks = append(toks, stok{tOp, string(c), i})
					i++
				} else {
					return nil, fmt.Errorf("unexpected character %q at %d", c, i)
				}
			}
		}
	}
	toks = append(toks, stok{tEOF, "", len(src)})
	return toks, nil
}

// ---- AST ----

type SExpr interface{ String() string }

type (
	SInt   struct{ V string } // decimal text (may be big)
	SBool  struct{ V bool }
	SStr   struct{ V string }
	SNil   struct{}
	SIdent struct{ Name string }
	SUnary struct {
		Op string
		X  SExpr
	}
	SBinary struct {
		Op   string
		X, Y SExpr
	}
	SSel struct {
		X    SExpr
		Name string
	}
	SIndex struct{ X, I SExpr }
	SSlice struct{ X, Lo, Hi SExpr }
	SCall  struct {
		Fn   SExpr
		Args []SExpr
	}
	SQuant struct {
		Forall  bool
		Vars    []SBinder
		Body    SExpr
		Pats    []SExpr   // optional triggers: forall x int {f(x), g(x)} :: body
		AltPats [][]SExpr // further alternative trigger groups: forall x int {f(x)} {g(x)} :: body
	}
	SLet struct {
		Name string
		Val  SExpr
		Body SExpr
	}
	SBinder struct {
		Name string
		Type string // Go type text
	}
)

func (e *SInt) String() string   { return e.V }
func (e *SBool) String() string  { return fmt.Sprint(e.V) }
func (e *SStr) String() string   { return strconv.Quote(e.V) }
func (e *SNil) String() string   { return "nil" }
func (e *SIdent) String() string { return e.Name }
func (e *SUnary) String() string {
	if e.Op == "*" {
		return "(*" + e.X.String() + ")"
	}
	return e.Op + e.X.String()
}
func (e *SBinary) String() string {
	return "(" + e.X.String() + " " + e.Op + " " + e.Y.String() + ")"
}
func (e *SSel) String() string   { return e.X.String() + "." + e.Name }
func (e *SIndex) String() string { return e.X.String() + "[" + e.I.String() + "]" }
func (e *SSlice) String() string {
	lo, hi := "", ""
	if e.Lo != nil {
		lo = e.Lo.String()
	}
	if e.Hi != nil {
		hi = e.Hi.String()
	}
	return e.X.String() + "[" + lo + ":" + hi + "]"
}
func (e *SCall) String() string {
	var a []string
	for _, x := range e.Args {
		a = append(a, x.String())
	}
	return e.Fn.String() + "(" + strings.Join(a, ", ") + ")"
}
func (e *SQuant) String() string {
	_ = e.Pats
	q := "exists"
	if e.Forall {
		q = "forall"
	}
	var b []string
	for _, v := range e.Vars {
		b = append(b, v.Name+" "+v.Type)
	}
	return "(" + q + " " + strings.Join(b, ", ") + " :: " + e.Body.String() + ")"
}
func (e *SLet) String() string {
	return "(let " + e.Name + " := " + e.Val.String() + " in " + e.Body.String() + ")"
}

// ---- parser ----

type specParser struct {
	toks []stok
	p    int
	src  string
}

func parseSpec(src string) (e SExpr, err error) {
	toks, err := lexSpec(src)
	if err != nil {
		return nil, err
	}
	sp := &specParser{toks: toks, src: src}
	defer func() {
		if r := recover(); r != nil {
			if pe, ok := r.(specErr); ok {
				err = fmt.Errorf("spec parse error: %s in %q", string(pe), src)
				return
			}
			panic(r)
		}
	}()
	e = sp.expr()
	if sp.peek().k != tEOF {
		sp.fail("unexpected %q", sp.peek().s)
	}
	return e, nil
}

type specErr string

func (sp *specParser) fail(f string, a ...interface{}) {
	panic(specErr(fmt.Sprintf(f, a...) + fmt.Sprintf(" at offset %d", sp.peek().pos)))
}
func (sp *specParser) peek() stok { return sp.toks[sp.p] }
func (sp *specParser) next() stok { t := sp.toks[sp.p]; sp.p++; return t }
func (sp *specParser) isOp(s string) bool {
	t := sp.peek()
	return t.k == tOp && t.s == s
}
func (sp *specParser) isKw(s string) bool {
	t := sp.peek()
	return t.k == tIdent && t.s == s
}
func (sp *specParser) expectOp(s string) {
	if !sp.isOp(s) {
		sp.fail("expected %q, found %q", s, sp.peek().s)
	}
	sp.next()
}

func (sp *specParser) expr() SExpr {
	if sp.isKw("forall") || sp.isKw("exists") {
		forall := sp.next().s == "forall"
		var vars []SBinder
		for {
			// names
			var names []string
			for {
				t := sp.next()
				if t.k != tIdent {
					sp.fail("expected binder name")
				}
				names = append(names, t.s)
				if sp.isOp(",") {
					// could be "i, j int" or "i int, j int"; lookahead: after comma ident followed by type-ish or comma
					sp.next()
					continue
				}
				break
			}
			typ := sp.typeText()
			for _, n := range names {
				vars = append(vars, SBinder{n, typ})
			}
			if sp.isOp(",") {
				sp.next()
				continue
			}
			break
		}
		var pats []SExpr
		if sp.isOp("{") {
			sp.next()
			for !sp.isOp("}") {
				pats = append(pats, sp.expr())
				if sp.isOp(",") {
					sp.next()
				}
			}
			sp.expectOp("}")
		}
		var alts [][]SExpr
		for sp.isOp("{") {
			sp.next()
			var g []SExpr
			for !sp.isOp("}") {
				g = append(g, sp.expr())
				if sp.isOp(",") {
					sp.next()
				}
			}
			sp.expectOp("}")
			alts = append(alts, g)
		}
		sp.expectOp("::")
		body := sp.expr()
		return &SQuant{Forall: forall, Vars: vars, Body: body, Pats: pats, AltPats: alts}
	}
	if sp.isKw("let") {
		sp.next()
		n := sp.next()
		if n.k != tIdent {
			sp.fail("expected name after let")
		}
		sp.expectOp(":=")
		v := sp.expr()
		if !sp.isKw("in") {
			sp.fail("expected 'in'")
		}
		sp.next()
		b := sp.expr()
		return &SLet{Name: n.s, Val: v, Body: b}
	}
	return sp.iff()
}

// typeText consumes a Go type up to "::" or "," at depth 0.
func (sp *specParser) typeText() string {
	var parts []string
	for {
		t := sp.peek()
		if t.k == tEOF || (t.k == tOp && (t.s == "::" || t.s == "," || t.s == "{")) {
			break
		}
		parts = append(parts, t.s)
		sp.next()
	}
	if len(parts) == 0 {
		sp.fail("expected type")
	}
	return strings.Join(parts, "")
}

func (sp *specParser) iff() SExpr {
	x := sp.impl()
	if sp.isOp("<==>") {
		sp.next()
		y := sp.impl()
		return &SBinary{"<==>", x, y}
	}
	return x
}

func (sp *specParser) impl() SExpr {
	x := sp.or()
	if sp.isOp("==>") {
		sp.next()
		var y SExpr
		if sp.isKw("forall") || sp.isKw("exists") || sp.isKw("let") {
			y = sp.expr()
		} else {
			y = sp.impl()
		}
		return &SBinary{"==>", x, y}
	}
	return x
}

func (sp *specParser) or() SExpr {
	x := sp.and()
	for sp.isOp("||") {
		sp.next()
		var y SExpr
		if sp.isKw("forall") || sp.isKw("exists") {
			y = sp.expr()
		} else {
			y = sp.and()
		}
		x = &SBinary{"||", x, y}
	}
	return x
}

func (sp *specParser) and() SExpr {
	x := sp.cmp()
	for sp.isOp("&&") {
		sp.next()
		var y SExpr
		if sp.isKw("forall") || sp.isKw("exists") {
			y = sp.expr()
		} else {
			y = sp.cmp()
		}
		x = &SBinary{"&&", x, y}
	}
	return x
}

func isRelop(s string) bool {
	switch s {
	case "==", "!=", "<", "<=", ">", ">=":
		return true
	}
	return false
}

func (sp *specParser) cmp() SExpr {
	x := sp.bitor()
	var res SExpr
	for sp.peek().k == tOp && isRelop(sp.peek().s) {
		op := sp.next().s
		y := sp.bitor()
		c := &SBinary{op, x, y}
		if res == nil {
			res = c
		} else {
			res = &SBinary{"&&", res, c}
		}
		x = y
	}
	if res != nil {
		return res
	}
	return x
}

func (sp *specParser) bitor() SExpr {
	x := sp.add()
	return x
}

func (sp *specParser) add() SExpr {
	x := sp.mul()
	for sp.isOp("+") || sp.isOp("-") || sp.isOp("|") || sp.isOp("^") {
		op := sp.next().s
		y := sp.mul()
		x = &SBinary{op, x, y}
	}
	return x
}

func (sp *specParser) mul() SExpr {
	x := sp.unary()
	for sp.isOp("*") || sp.isOp("/") || sp.isOp("%") || sp.isOp("&") || sp.isOp("<<") || sp.isOp(">>") || sp.isOp("&^") {
		op := sp.next().s
		y := sp.unary()
		x = &SBinary{op, x, y}
	}
	return x
}

func (sp *specParser) unary() SExpr {
	if sp.isOp("!") || sp.isOp("-") || sp.isOp("*") {
		op := sp.next().s
		x := sp.unary()
		return &SUnary{op, x}
	}
	return sp.postfix()
}

func (sp *specParser) postfix() SExpr {
	x := sp.primary()
	for {
		switch {
		case sp.isOp("."):
			sp.next()
			t := sp.next()
			if t.k != tIdent {
				sp.fail("expected field name after '.'")
			}
			x = &SSel{x, t.s}
		case sp.isOp("["):
			sp.next()
			var lo, hi SExpr
			if sp.isOp(":") {
				sp.next()
				if !sp.isOp("]") {
					hi = sp.expr()
				}
				sp.expectOp("]")
				x = &SSlice{x, nil, hi}
				continue
			}
			lo = sp.expr()
			if sp.isOp(":") {
				sp.next()
				if !sp.isOp("]") {
					hi = sp.expr()
				}
				sp.expectOp("]")
				x = &SSlice{x, lo, hi}
				continue
			}
			sp.expectOp("]")
			x = &SIndex{x, lo}
		case sp.isOp("("):
			sp.next()
			var args []SExpr
			for !sp.isOp(")") {
				args = append(args, sp.expr())
				if sp.isOp(",") {
					sp.next()
				} else {
					break
				}
			}
			sp.expectOp(")")
			x = &SCall{x, args}
		default:
			return x
		}
	}
}

func (sp *specParser) primary() SExpr {
	t := sp.next()
	switch t.k {
	case tInt:
		s := strings.ReplaceAll(t.s, "_", "")
		if strings.HasPrefix(s, "0x") || strings.HasPrefix(s, "0X") {
			v, err := strconv.ParseUint(s[2:], 16, 64)
			if err != nil {
				sp.fail("bad hex literal %s", t.s)
			}
			return &SInt{strconv.FormatUint(v, 10)}
		}
		return &SInt{s}
	case tChar:
		r, _, _, err := strconv.UnquoteChar(t.s[1:len(t.s)-1], '\'')
		if err != nil {
			sp.fail("bad char literal %s", t.s)
		}
		return &SInt{strconv.Itoa(int(r))}
	case tString:
		s, err := strconv.Unquote(t.s)
		if err != nil {
			sp.fail("bad string literal %s", t.s)
		}
		return &SStr{s}
	case tIdent:
		switch t.s {
		case "true":
			return &SBool{true}
		case "false":
			return &SBool{false}
		case "nil":
			return &SNil{}
		}
		return &SIdent{t.s}
	case tOp:
		if t.s == "(" {
			e := sp.expr()
			sp.expectOp(")")
			return e
		}
	}
	sp.p--
	sp.fail("unexpected token %q", t.s)
	return nil
}
