package main

// Strings (trusted UTF-8 decode spec), maps, range iterators.

import (
	"fmt"
	"go/types"
	"unicode/utf8"

	"golang.org/x/tools/go/ssa"
)

// ---------- strings ----------
//
// Str is an uninterpreted sort with
//   slen  : Str -> Int                 byte length
//   sbyte : Str Int -> Int             byte at index
//   srune : Str Int -> Int             rune decoded at byte offset (utf8.DecodeRuneInString(s[i:]))
//   swidth: Str Int -> Int             width of that rune (1..4; 1 for invalid bytes)
// Trusted facts (the "UTF-8 decode spec"): 0 <= slen; 0 <= sbyte < 256; 1 <= swidth <= 4;
// i + swidth(s,i) <= slen(s) for 0 <= i < slen(s); sbyte < 128 => srune = sbyte and swidth = 1;
// srune in [0, 0x10FFFF] and never a surrogate (the decoder yields U+FFFD for those encodings);
// srune = 0xFFFD when width is 1 and byte >= 128.

func (v *Verifier) strPrelude(c *Ctx) {
	if v.strDeclared {
		return
	}
	v.strDeclared = true
	c.declareFun("slen", []string{"Str"}, "Int")
	c.declareFun("sbyte", []string{"Str", "Int"}, "Int")
	c.declareFun("srune", []string{"Str", "Int"}, "Int")
	c.declareFun("swidth", []string{"Str", "Int"}, "Int")
	c.assert("(forall ((s! Str)) (! (and (<= 0 (slen s!)) (<= (slen s!) "+maxLenTerm+")) :pattern ((slen s!))))", "string length range")
	c.assert("(forall ((s! Str) (i! Int)) (! (and (<= 0 (sbyte s! i!)) (< (sbyte s! i!) 256)) :pattern ((sbyte s! i!))))", "byte range")
	c.assert("(forall ((s! Str) (i! Int)) (! (and (<= 1 (swidth s! i!)) (<= (swidth s! i!) 4) (=> (and (<= 0 i!) (< i! (slen s!))) (<= (+ i! (swidth s! i!)) (slen s!)))) :pattern ((swidth s! i!))))", "rune width")
	c.assert("(forall ((s! Str) (i! Int)) (! (=> (not (= (srune s! i!) 65533)) (= (swidth s! i!) (ite (< (srune s! i!) 128) 1 (ite (< (srune s! i!) 2048) 2 (ite (< (srune s! i!) 65536) 3 4))))) :pattern ((swidth s! i!))))", "width of a validly decoded rune")
	c.assert("(forall ((s! Str) (i! Int)) (! (=> (= (srune s! i!) 65533) (or (= (swidth s! i!) 1) (= (swidth s! i!) 3))) :pattern ((swidth s! i!))))", "U+FFFD is either a real 3-byte rune or one invalid byte")
	c.assert("(forall ((s! Str) (i! Int)) (! (and (<= 0 (srune s! i!)) (<= (srune s! i!) 1114111) (not (and (<= 55296 (srune s! i!)) (<= (srune s! i!) 57343))) (=> (< (sbyte s! i!) 128) (and (= (srune s! i!) (sbyte s! i!)) (= (swidth s! i!) 1))) (=> (>= (sbyte s! i!) 128) (and (>= (srune s! i!) 128) (=> (= (swidth s! i!) 1) (= (srune s! i!) 65533))))) :pattern ((srune s! i!))))", "rune decode")
}

func (v *Verifier) strFacts(c *Ctx, s Term)     { v.strPrelude(c) }
func (v *Verifier) strFactsOnce(c *Ctx, s Term) { v.strPrelude(c) }

func (v *Verifier) strLit(c *Ctx, s string) Term {
	v.strPrelude(c)
	if t, ok := v.strLits[s]; ok {
		return t
	}
	name := fmt.Sprintf("str!lit%d", len(v.strLits))
	t := c.declare(name, "Str")
	v.strLits[s] = t
	c.assert(eq(app("slen", t), num(int64(len(s)))), fmt.Sprintf("literal %q", s))
	if s == "" {
		// the empty string is the only string of length 0 (strings are compared by value)
		c.assert(fmt.Sprintf("(forall ((s! Str)) (! (=> (= (slen s!) 0) (= s! %s)) :pattern ((slen s!))))", t), "empty string is unique")
	}
	if len(s) <= 48 {
		for i := 0; i < len(s); i++ {
			c.assert(eq(app("sbyte", t, num(int64(i))), num(int64(s[i]))), "")
		}
		// decode facts
		for i := 0; i < len(s); {
			r, w := utf8.DecodeRuneInString(s[i:])
			c.assert(and(eq(app("srune", t, num(int64(i))), num(int64(r))), eq(app("swidth", t, num(int64(i))), num(int64(w)))), "")
			i += w
		}
	}
	return t
}

func (v *Verifier) substr(c *Ctx, s, lo, hi Term) Term {
	v.strPrelude(c)
	f := c.declareFun("ssub", []string{"Str", "Int", "Int"}, "Str")
	if !v.substrAx {
		v.substrAx = true
		c.assert("(forall ((s! Str) (a! Int) (b! Int)) (! (=> (and (<= 0 a!) (<= a! b!) (<= b! (slen s!))) (= (slen (ssub s! a! b!)) (- b! a!))) :pattern ((ssub s! a! b!))))", "substring length")
		c.assert("(forall ((s! Str) (a! Int) (b! Int) (i! Int)) (! (=> (and (<= 0 a!) (<= a! b!) (<= b! (slen s!)) (<= 0 i!) (< i! (- b! a!))) (= (sbyte (ssub s! a! b!) i!) (sbyte s! (+ a! i!)))) :pattern ((sbyte (ssub s! a! b!) i!))))", "substring bytes")
		c.assert("(forall ((s! Str) (a! Int) (b! Int) (k! Int)) (! (=> (and (<= 0 a!) (<= a! k!) (< k! b!) (<= b! (slen s!))) (= (sbyte (ssub s! a! b!) (- k! a!)) (sbyte s! k!))) :pattern ((ssub s! a! b!) (sbyte s! k!))))", "substring bytes (seen from the whole string)")
		c.assert("(forall ((s! Str) (a! Int) (i! Int)) (! (=> (and (<= 0 a!) (<= a! (slen s!)) (<= 0 i!)) (and (= (srune (ssub s! a! (slen s!)) i!) (srune s! (+ a! i!))) (= (swidth (ssub s! a! (slen s!)) i!) (swidth s! (+ a! i!))))) :pattern ((srune (ssub s! a! (slen s!)) i!))))", "suffix decode")
	}
	return app(f, s, lo, hi)
}

// []rune(s) / []byte(s)
func (v *Verifier) strToSlice(fr *Frame, x Val, to types.Type, st *State) Val {
	ref := fr.ctx.freshConst("convref", "Int")
	fr.ctx.assert(le(st.nxt, ref), "fresh conversion result")
	fr.v.knownNonNil[ref] = true
	return v.strToSliceAt(fr, x, to, st, ref)
}

func (v *Verifier) strToSliceAt(fr *Frame, x Val, to types.Type, st *State, ref Term) Val {
	c := fr.ctx
	et := to.Underlying().(*types.Slice).Elem()
	res := fr.freshVal(to, "conv")
	c.assert(and(eq(res.A, ref), eq(res.Off, "0")), "fresh conversion result")
	res.A = ref
	res.Off = "0"
	if b, ok := et.Underlying().(*types.Basic); ok && b.Kind() == types.Uint8 {
		c.assert(eq(res.Len, app("slen", x.A)), "[]byte(s) length")
		fr.note("[]byte(s): contents not modelled")
	} else {
		// []rune(s) is DecodeOf(result, s) in the trusted decode spec
		rc := c.declareFun("G!lib.RuneCount", []string{"Str"}, "Int")
		rs := c.declareFun("G!lib.RuneStart", []string{"Str", "Int"}, "Int")
		if sf := v.contracts.Specs["lib.RuneCount"]; sf != nil {
			v.libAxiomsFor(&Env{fr: fr, cur: st, old: st}, sf)
		}
		if sf := v.contracts.Specs["lib.RuneStart"]; sf != nil {
			v.libAxiomsFor(&Env{fr: fr, cur: st, old: st}, sf)
		}
		c.assert(eq(res.Len, app(rc, x.A)), "[]rune(s) length")
		row := fr.rd(st, "E:"+typeName(et), arr2Sort("Int"), res.A)
		c.assert(fmt.Sprintf("(forall ((k! Int)) (! (=> (and (<= 0 k!) (< k! %s)) (= (select %s k!) (srune %s (%s %s k!)))) :pattern ((select %s k!))))", res.Len, row, x.A, rs, x.A, row), "[]rune(s) contents")
	}
	fr.rootFrame().allocNote = true
	return res
}

func (v *Verifier) sliceToStr(fr *Frame, x Val, from, to types.Type, st *State) Val {
	c := fr.ctx
	v.strPrelude(c)
	s := c.freshConst("str", "Str")
	et := from.Underlying().(*types.Slice).Elem()
	if b, ok := et.Underlying().(*types.Basic); ok && b.Kind() == types.Uint8 {
		c.assert(eq(app("slen", s), x.Len), "string([]byte) length")
	}
	fr.note("string(slice): contents not modelled")
	return Val{K: KStr, T: to, A: s}
}

// ---------- maps ----------

func mapComps(t types.Type) (prefix string, ksort string, vt types.Type) {
	mt := t.Underlying().(*types.Map)
	return "M:" + typeName(mt.Key()) + ":" + typeName(mt.Elem()), scalarSort(mt.Key()), mt.Elem()
}

func (fr *Frame) mapInit(st *State, t types.Type, ref Term) *State {
	pfx, ks, _ := mapComps(t)
	domSort := "(Array Int (Array " + ks + " Bool))"
	d := fr.ctx.get(st, pfx+"#dom", domSort)
	fr.touch(pfx+"#dom", domSort)
	st = st.with(pfx+"#dom", fr.nameTerm(store(d, ref, "((as const (Array "+ks+" Bool)) false)"), "dom", domSort))
	cd := fr.ctx.get(st, pfx+"#card", arrSort("Int"))
	fr.touch(pfx+"#card", arrSort("Int"))
	st = st.with(pfx+"#card", store(cd, ref, "0"))
	return st
}

func (fr *Frame) mapCard(st *State, m Val) Term {
	pfx, _, _ := mapComps(m.T)
	c := sel(fr.ctx.get(st, pfx+"#card", arrSort("Int")), m.A)
	fr.factOnce(le("0", c))
	return ite(eq(m.A, "0"), "0", c)
}

func keyTerm(k Val) Term { return k.A }

func (fr *Frame) lookup(i *ssa.Lookup, st *State, reach Term) *State {
	x := fr.value(i.X)
	k := fr.value(i.Index)
	if x.K == KStr {
		// string indexing
		n := app("slen", x.A)
		fr.addObl("index", "", implies(reach, and(le("0", k.A), lt(k.A, n))), "index in range: "+i.String(), fr.posOf(i), fr.safetyProps(), false)
		fr.ctx.assert(implies(reach, and(le("0", k.A), lt(k.A, n))), "after index check")
		fr.vals[i] = Val{K: KInt, T: i.Type(), A: app("sbyte", x.A, k.A)}
		return st
	}
	pfx, ks, vt := mapComps(x.T)
	if kindOf(x.T.Underlying().(*types.Map).Key()) != KInt && kindOf(x.T.Underlying().(*types.Map).Key()) != KStr {
		encFail("map key type unsupported")
	}
	dom := sel(sel(fr.ctx.get(st, pfx+"#dom", "(Array Int (Array "+ks+" Bool))"), x.A), keyTerm(k))
	ok := and(not(eq(x.A, "0")), dom)
	var val Val
	zero := fr.zeroVal(vt)
	switch kindOf(vt) {
	case KInt, KRef, KIface, KFunc, KMap:
		t := sel(sel(fr.ctx.get(st, pfx+"#val", "(Array Int (Array "+ks+" Int))"), x.A), keyTerm(k))
		val = Val{K: kindOf(vt), T: vt, A: ite(ok, t, "0")}
		if kindOf(vt) == KInt {
			fr.factOnce(rangeAssump(vt, t))
		} else {
			fr.factOnce(le("0", t))
		}
	case KBool:
		t := sel(sel(fr.ctx.get(st, pfx+"#val", "(Array Int (Array "+ks+" Bool))"), x.A), keyTerm(k))
		val = Val{K: KBool, T: vt, A: and(ok, t)}
	case KStr:
		t := sel(sel(fr.ctx.get(st, pfx+"#val", "(Array Int (Array "+ks+" Str))"), x.A), keyTerm(k))
		val = Val{K: KStr, T: vt, A: ite(ok, t, zero.A)}
	default:
		val = fr.freshVal(vt, "mapval")
		fr.note("map value of composite type: lookup result unconstrained")
	}
	if i.CommaOk {
		fr.vals[i] = Val{K: KTuple, T: i.Type(), Fields: []Val{val, {K: KBool, T: types.Typ[types.Bool], A: ok}}}
	} else {
		fr.vals[i] = val
	}
	return st
}

func (fr *Frame) mapUpdate(i *ssa.MapUpdate, st *State, reach Term) *State {
	m := fr.value(i.Map)
	k := fr.value(i.Key)
	val := fr.value(i.Value)
	fr.addObl("nilmap", "", implies(reach, not(eq(m.A, "0"))), "assignment to entry in nil map: "+i.String(), fr.posOf(i), fr.safetyProps(), false)
	pfx, ks, vt := mapComps(m.T)
	domSort := "(Array Int (Array " + ks + " Bool))"
	d := fr.ctx.get(st, pfx+"#dom", domSort)
	had := sel(sel(d, m.A), keyTerm(k))
	cd := fr.ctx.get(st, pfx+"#card", arrSort("Int"))
	fr.touch(pfx+"#card", arrSort("Int"))
	st = st.with(pfx+"#card", fr.nameTerm(store(cd, m.A, add(sel(cd, m.A), ite(had, "0", "1"))), "card", arrSort("Int")))
	fr.touch(pfx+"#dom", domSort)
	st = st.with(pfx+"#dom", fr.nameTerm(store(d, m.A, store(sel(d, m.A), keyTerm(k), "true")), "dom", domSort))
	var vs string
	switch kindOf(vt) {
	case KInt, KRef, KIface, KFunc, KMap:
		vs = "Int"
	case KBool:
		vs = "Bool"
	case KStr:
		vs = "Str"
	default:
		fr.note("map value of composite type: update not modelled")
		return st
	}
	valSort := "(Array Int (Array " + ks + " " + vs + "))"
	a := fr.ctx.get(st, pfx+"#val", valSort)
	fr.touch(pfx+"#val", valSort)
	st = st.with(pfx+"#val", fr.nameTerm(store(a, m.A, store(sel(a, m.A), keyTerm(k), val.A)), "mval", valSort))
	return st
}

func (fr *Frame) mapDelete(st *State, m, k Val) *State {
	pfx, ks, _ := mapComps(m.T)
	domSort := "(Array Int (Array " + ks + " Bool))"
	d := fr.ctx.get(st, pfx+"#dom", domSort)
	had := sel(sel(d, m.A), keyTerm(k))
	cd := fr.ctx.get(st, pfx+"#card", arrSort("Int"))
	fr.touch(pfx+"#card", arrSort("Int"))
	st = st.with(pfx+"#card", fr.nameTerm(store(cd, m.A, sub(sel(cd, m.A), ite(had, "1", "0"))), "card", arrSort("Int")))
	fr.touch(pfx+"#dom", domSort)
	st = st.with(pfx+"#dom", fr.nameTerm(store(d, m.A, store(sel(d, m.A), keyTerm(k), "false")), "dom", domSort))
	return st
}

// ---------- range / next ----------

const iterComp = "C:iter#pos"

func (fr *Frame) rangeInit(i *ssa.Range, st *State, reach Term) *State {
	x := fr.value(i.X)
	ref := st.nxt
	st = st.withNxt(fr.bumpNxt(st.nxt))
	fr.v.knownNonNil[ref] = true
	l := &Loc{Comp: iterComp, Ref: ref}
	st = fr.writeLeaf(st, l, "", "Int", "0")
	fr.vals[i] = Val{K: KLoc, T: i.Type(), Loc: l, Fields: []Val{x}}
	fr.iters = append(fr.iters, i)
	return st
}

func (fr *Frame) next(i *ssa.Next, st *State, reach Term) *State {
	it := fr.value(i.Iter)
	x := it.Fields[0]
	boolT := types.Typ[types.Bool]
	if i.IsString {
		pos := fr.readLeaf(st, it.Loc, "", "Int")
		n := app("slen", x.A)
		ok := lt(pos, n)
		r := app("srune", x.A, pos)
		w := app("swidth", x.A, pos)
		st = fr.writeLeaf(st, it.Loc, "", "Int", ite(ok, add(pos, w), pos))
		fr.vals[i] = Val{K: KTuple, T: i.Type(), Fields: []Val{{K: KBool, T: boolT, A: ok},
			{K: KInt, T: types.Typ[types.Int], A: pos}, {K: KInt, T: types.Typ[types.Int32], A: r}}}
		return st
	}
	// map iteration: arbitrary member, arbitrary order; termination not modelled
	mt := x.T.Underlying().(*types.Map)
	ok := fr.ctx.freshConst("mapnext.ok", "Bool")
	k := fr.freshVal(mt.Key(), "mapnext.k")
	pfx, ks, vt := mapComps(x.T)
	dom := sel(sel(fr.ctx.get(st, pfx+"#dom", "(Array Int (Array "+ks+" Bool))"), x.A), k.A)
	fr.ctx.assert(implies(ok, and(not(eq(x.A, "0")), dom)), "map iteration yields members")
	var val Val
	switch kindOf(vt) {
	case KInt, KRef, KIface, KFunc, KMap:
		t := sel(sel(fr.ctx.get(st, pfx+"#val", "(Array Int (Array "+ks+" Int))"), x.A), k.A)
		val = Val{K: kindOf(vt), T: vt, A: t}
		if kindOf(vt) == KInt {
			fr.factOnce(rangeAssump(vt, t))
		} else {
			fr.factOnce(le("0", t))
		}
	case KBool:
		val = Val{K: KBool, T: vt, A: sel(sel(fr.ctx.get(st, pfx+"#val", "(Array Int (Array "+ks+" Bool))"), x.A), k.A)}
	case KStr:
		val = Val{K: KStr, T: vt, A: sel(sel(fr.ctx.get(st, pfx+"#val", "(Array Int (Array "+ks+" Str))"), x.A), k.A)}
	default:
		val = fr.freshVal(vt, "mapnext.v")
	}
	fr.vals[i] = Val{K: KTuple, T: i.Type(), Fields: []Val{{K: KBool, T: boolT, A: ok}, k, val}}
	return st
}
