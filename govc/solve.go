package main

// Solver portfolio: z3-new (5.x) first, then cvc5 and z3 4.8 in parallel on unknown/timeout.

import (
	"bytes"
	"context"
	"fmt"
	"os"
	"os/exec"
	"path/filepath"
	"runtime"
	"sort"
	"strings"
	"sync"
	"time"
)

type solverRun struct {
	verdict string // unsat sat unknown timeout error
	solver  string
	out     string
	secs    float64
}

// solverSlots bounds the number of solver processes running at once (portfolio runs queue instead of oversubscribing the machine).
var solverSlots = make(chan struct{}, 16)

func runSolverCtx(ctx context.Context, name string, args []string, file string, timeout time.Duration) solverRun {
	select {
	case solverSlots <- struct{}{}:
	case <-ctx.Done():
		return solverRun{verdict: "cancelled", solver: name}
	}
	defer func() { <-solverSlots }()
	ctx2, cancel := context.WithTimeout(ctx, timeout+2*time.Second)
	defer cancel()
	t0 := time.Now()
	cmd := exec.CommandContext(ctx2, name, append(args, file)...)
	var out bytes.Buffer
	cmd.Stdout = &out
	cmd.Stderr = &out
	err := cmd.Run()
	secs := time.Since(t0).Seconds()
	o := out.String()
	for strings.HasPrefix(o, "WARNING") {
		if i := strings.Index(o, "\n"); i >= 0 {
			o = o[i+1:]
		} else {
			o = ""
		}
	}
	first := strings.TrimSpace(strings.SplitN(o, "\n", 2)[0])
	r := solverRun{solver: name + " " + strings.Join(args, " "), out: o, secs: secs}
	r.solver = strings.TrimSpace(r.solver)
	switch first {
	case "unsat", "sat", "unknown":
		r.verdict = first
	case "timeout":
		r.verdict = "timeout"
	default:
		if ctx2.Err() != nil {
			r.verdict = "timeout"
		} else if err != nil || first != "" {
			r.verdict = "error"
		} else {
			r.verdict = "unknown"
		}
	}
	return r
}

func runSolver(name string, args []string, file string, timeout time.Duration) solverRun {
	return runSolverCtx(context.Background(), name, args, file, timeout)
}

type solveOpts struct {
	dir      string
	timeout  time.Duration
	canaryTO time.Duration
	all      bool // run all solvers and report disagreement (thorough)
}

// solveObligation: z3 5.x first (short budget); if it does not decide, a portfolio runs in parallel —
// z3 5.x under different random seeds (quantifier instantiation is seed-sensitive), cvc5 and z3 4.8 —
// and the first definite answer wins.
func solveObligation(c *Ctx, o *Obligation, idx int, opts solveOpts) {
	to := opts.timeout
	if o.Canary {
		to = opts.canaryTO
	}
	base := filepath.Join(opts.dir, fmt.Sprintf("o%05d", idx))
	z3file := base + ".smt2"
	os.WriteFile(z3file, []byte(c.script(o, int(to.Milliseconds()), "")), 0o644)
	secs := int(to.Seconds())
	if secs < 1 {
		secs = 1
	}
	stage1 := to
	if !o.Canary && stage1 > time.Duration(4*cpuFactor())*time.Second {
		stage1 = time.Duration(4*cpuFactor()) * time.Second
	}
	s1 := int(stage1.Seconds())
	if s1 < 1 {
		s1 = 1
	}
	t0 := time.Now()
	if !o.Canary {
		// stage 0: quantifier-free slice
		sfile := base + ".slice.smt2"
		os.WriteFile(sfile, []byte(c.scriptSliced(o)), 0o644)
		r0 := runSolver("z3-new", []string{"-T:2"}, sfile, 2*time.Second)
		if os.Getenv("GOVC_KEEP") == "" {
			os.Remove(sfile)
		}
		if r0.verdict == "unsat" {
			o.Solver = "z3-new (qf slice)"
			o.Time = time.Since(t0).Seconds()
			o.Status = "discharged"
			os.Remove(z3file)
			return
		}
	}
	// stage 1: the full theory and the theory without array extensionality side by side (a "sat" without
	// extensionality is not a counterexample and is ignored)
	var r solverRun
	if o.Canary {
		r = runSolver("z3-new", []string{fmt.Sprintf("-T:%d", s1)}, z3file, stage1)
	} else {
		ctx1, cancel1 := context.WithCancel(context.Background())
		res1 := make(chan solverRun, 2)
		go func() { res1 <- runSolverCtx(ctx1, "z3-new", []string{fmt.Sprintf("-T:%d", s1)}, z3file, stage1) }()
		go func() {
			res1 <- runSolverCtx(ctx1, "z3-new", []string{fmt.Sprintf("-T:%d", s1), "smt.array.extensional=false"}, z3file, stage1)
		}()
		for k := 0; k < 2; k++ {
			rr := <-res1
			noext := strings.Contains(rr.solver, "extensional=false")
			if rr.verdict == "unsat" || (rr.verdict == "sat" && !noext) {
				r = rr
				break
			}
			if !noext {
				r = rr
			}
		}
		cancel1()
	}
	final := r
	if r.verdict != "unsat" && r.verdict != "sat" && !o.Canary {
		cvcfile := base + ".cvc5.smt2"
		os.WriteFile(cvcfile, []byte("(set-option :produce-models true)\n"+c.script(o, int(to.Milliseconds()), "ALL")), 0o644)
		type cfg struct {
			name string
			args []string
			file string
		}
		cfgs := []cfg{
			{"z3-new", []string{fmt.Sprintf("-T:%d", secs), "smt.random_seed=7"}, z3file},
			{"z3-new", []string{fmt.Sprintf("-T:%d", secs), "smt.random_seed=13"}, z3file},
			{"z3-new", []string{fmt.Sprintf("-T:%d", secs), "smt.random_seed=7", "smt.array.extensional=false"}, z3file},
			{"z3-new", []string{fmt.Sprintf("-T:%d", secs), "smt.random_seed=1", "smt.array.extensional=false"}, z3file},
			{"z3-new", []string{fmt.Sprintf("-T:%d", secs), "smt.random_seed=3", "smt.array.extensional=false"}, z3file},
			{"cvc5", []string{fmt.Sprintf("--tlimit=%d", to.Milliseconds()), "--lang=smt2"}, cvcfile},
		}
		cfgs = append(cfgs, cfg{"z3-new", []string{fmt.Sprintf("-T:%d", secs), "smt.random_seed=42", "smt.qi.eager_threshold=50"}, z3file},
			cfg{"z3", []string{fmt.Sprintf("-T:%d", secs)}, z3file})
		ctx, cancel := context.WithCancel(context.Background())
		results := make(chan solverRun, len(cfgs))
		for _, cf := range cfgs {
			cf := cf
			go func() { results <- runSolverCtx(ctx, cf.name, cf.args, cf.file, to) }()
		}
		for range cfgs {
			rr := <-results
			if rr.verdict == "sat" && strings.Contains(rr.solver, "extensional=false") {
				continue // not a counterexample in the full theory
			}
			if rr.verdict == "unsat" || rr.verdict == "sat" {
				final = rr
				break
			}
			if rr.verdict == "error" && final.verdict != "error" && !strings.Contains(rr.out, "model is not available") {
				// keep the first real error for reporting, but let the others finish
				if strings.HasPrefix(rr.solver, "z3-new") {
					final = rr
				}
			}
		}
		cancel()
		os.Remove(cvcfile)
	}
	o.Solver = final.solver
	o.Time = time.Since(t0).Seconds()
	o.Output = truncate(final.out, 4000)
	switch final.verdict {
	case "unsat":
		o.Status = "discharged"
	case "sat":
		o.Status = "refuted"
		o.Model = parseModel(final.out, o)
	case "error":
		o.Status = "error"
	default:
		o.Status = "unknown"
	}
	if strings.Contains(final.out, "(error ") && final.verdict != "unsat" && !strings.Contains(final.out, "model is not available") {
		o.Status = "error"
	}
	if os.Getenv("GOVC_KEEP") == "" {
		os.Remove(z3file)
	}
}

func truncate(s string, n int) string {
	if len(s) > n {
		return s[:n] + "...[truncated]"
	}
	return s
}

// parseModel extracts (get-value) pairs: ((t1 v1) (t2 v2) ...)
func parseModel(out string, o *Obligation) map[string]string {
	i := strings.Index(out, "\n")
	if i < 0 {
		return nil
	}
	rest := strings.TrimSpace(out[i+1:])
	if !strings.HasPrefix(rest, "(") {
		return nil
	}
	// split top-level pairs
	var pairs []string
	depth := 0
	start := -1
	inq := false
	for k := 0; k < len(rest); k++ {
		ch := rest[k]
		if ch == '|' {
			inq = !inq
		}
		if inq {
			continue
		}
		if ch == '(' {
			depth++
			if depth == 2 {
				start = k
			}
		} else if ch == ')' {
			if depth == 2 && start >= 0 {
				pairs = append(pairs, rest[start+1:k])
				start = -1
			}
			depth--
			if depth == 0 {
				break
			}
		}
	}
	m := map[string]string{}
	for k, p := range pairs {
		if k >= len(o.ModelVars) {
			break
		}
		term := o.ModelVars[k].Term
		val := strings.TrimSpace(strings.TrimPrefix(strings.TrimSpace(p), term))
		val = strings.Join(strings.Fields(val), " ")
		if strings.HasPrefix(val, "(- ") {
			val = "-" + strings.TrimSuffix(strings.TrimPrefix(val, "(- "), ")")
		}
		m[o.ModelVars[k].Name] = val
	}
	return m
}

type job struct {
	c   *Ctx
	o   *Obligation
	idx int
}

// incrementalPass checks a chunk of obligations of one function in a single solver session:
// assertions are added in program order and each obligation is checked with push/pop at the point
// where it was generated (it sees exactly the assertions made before it). With sliced=true every
// quantified assumption is left out (sound: fewer hypotheses). Returns the verdict per obligation.
func incrementalPass(c *Ctx, chunk []job, sliced bool, noExt bool, perCheckMs int, dir string, tag string) map[*Obligation]string {
	var sb strings.Builder
	if noExt {
		// array extensionality switched off: a weaker theory (every unsat answer stays valid), which keeps the
		// array-ext witness indices from feeding the quantifier patterns over slice rows
		sb.WriteString("(set-option :smt.array.extensional false)\n")
	}
	sb.WriteString(fmt.Sprintf("(set-option :timeout %d)\n(declare-sort Str 0)\n", perCheckMs))
	for _, d := range c.decls {
		sb.WriteString(d + "\n")
	}
	pos := 0
	first := chunk[0].o.N
	for _, j := range chunk {
		for pos < j.o.N {
			a := c.asserts[pos]
			pos++
			if sliced && (strings.Contains(a.term, "(forall ") || strings.Contains(a.term, "(exists ")) {
				continue
			}
			// facts hidden behind a cut: a chunk never straddles a cut (chunkJobs), so visibility is that of its first member
			if !c.visible(pos-1, first) && pos-1 < first {
				continue
			}
			sb.WriteString("(assert " + a.term + ")\n")
		}
		sb.WriteString("(push 1)\n(assert (not " + j.o.Goal + "))\n(check-sat)\n(pop 1)\n")
	}
	f := filepath.Join(dir, tag+".smt2")
	os.WriteFile(f, []byte(sb.String()), 0o644)
	defer os.Remove(f)
	total := time.Duration(perCheckMs*len(chunk)+5000) * time.Millisecond
	r := runSolver("z3-new", nil, f, total)
	res := map[*Obligation]string{}
	lines := strings.Split(r.out, "\n")
	k := 0
	for _, ln := range lines {
		ln = strings.TrimSpace(ln)
		if ln == "unsat" || ln == "sat" || ln == "unknown" || ln == "timeout" {
			if k < len(chunk) {
				res[chunk[k].o] = ln
				k++
			}
		}
	}
	return res
}

var chunkSize = func() int {
	if v := os.Getenv("GOVC_CHUNK"); v != "" {
		var n int
		fmt.Sscanf(v, "%d", &n)
		if n > 0 {
			return n
		}
	}
	return 16
}()

func chunkJobs(js []job, n int) [][]job {
	var out [][]job
	for len(js) > 0 {
		k := n
		if len(js) < k {
			k = len(js)
		}
		// a chunk does not straddle a cut (an index after which some earlier assertions are hidden)
		for m := 1; m < k; m++ {
			if js[0].c.cutBetween(js[m-1].o.N, js[m].o.N) {
				k = m
				break
			}
		}
		out = append(out, js[:k])
		js = js[k:]
	}
	return out
}

// solveAll decides every obligation: canaries/covers stand alone; the others first in incremental sessions
// (quantifier-free slice, then full assumptions), and whatever remains undecided goes to the stand-alone portfolio.
func solveAll(jobs []job, opts solveOpts, workers int) {
	byCtx := map[*Ctx][]job{}
	var order []*Ctx
	var rest []job
	for _, j := range jobs {
		if j.o.Canary {
			rest = append(rest, j)
			continue
		}
		if _, ok := byCtx[j.c]; !ok {
			order = append(order, j.c)
		}
		byCtx[j.c] = append(byCtx[j.c], j)
	}
	runPass := func(sliced bool, noExt bool, perCheckMs int, label string) {
		type task struct {
			c     *Ctx
			chunk []job
			tag   string
		}
		var tasks []task
		n := 0
		for _, c := range order {
			js := byCtx[c]
			sort.SliceStable(js, func(a, b int) bool { return js[a].o.N < js[b].o.N })
			var todo []job
			for _, j := range js {
				if j.o.Status == "" {
					todo = append(todo, j)
				}
			}
			for _, ch := range chunkJobs(todo, chunkSize) {
				n++
				tasks = append(tasks, task{c, ch, fmt.Sprintf("inc%s%05d", label, n)})
			}
		}
		ch := make(chan task)
		var wg sync.WaitGroup
		for w := 0; w < workers; w++ {
			wg.Add(1)
			go func() {
				defer wg.Done()
				for t := range ch {
					t0 := time.Now()
					res := incrementalPass(t.c, t.chunk, sliced, noExt, perCheckMs, opts.dir, t.tag)
					per := time.Since(t0).Seconds() / float64(len(t.chunk))
					for _, j := range t.chunk {
						if res[j.o] == "unsat" {
							j.o.Status = "discharged"
							j.o.Solver = "z3-new incremental (" + label + ")"
							j.o.Time = per
						}
					}
				}
			}()
		}
		for _, t := range tasks {
			ch <- t
		}
		close(ch)
		wg.Wait()
	}
	if os.Getenv("GOVC_NOINC") == "" {
		tp := time.Now()
		runPass(false, true, 1500*cpuFactor(), "no-ext")
		runPass(false, false, 2500*cpuFactor(), "full")
		t1 := time.Since(tp).Seconds()
		runPass(true, false, 1500*cpuFactor(), "qf-slice")
		if os.Getenv("GOVC_TIMING") != "" {
			fmt.Printf("timing: full pass %.1fs, qf-slice pass %.1fs\n", t1, time.Since(tp).Seconds()-t1)
		}
	}
	for _, c := range order {
		for _, j := range byCtx[c] {
			if j.o.Status == "" {
				rest = append(rest, j)
			}
		}
	}
	ch := make(chan job)
	var wg sync.WaitGroup
	for w := 0; w < workers; w++ {
		wg.Add(1)
		go func() {
			defer wg.Done()
			for j := range ch {
				solveObligation(j.c, j.o, j.idx, opts)
			}
		}()
	}
	for _, j := range rest {
		ch <- j
	}
	close(ch)
	wg.Wait()
}

// crossCheck re-submits every discharged obligation to two other solvers. unsat = agreement, unknown/timeout = no
// information, sat = disagreement (reported by the caller as an engine error).
func crossCheck(jobs []job, dir string, workers int) (map[string]int, []string) {
	counts := map[string]int{}
	var dis []string
	var mu sync.Mutex
	ch := make(chan job)
	var wg sync.WaitGroup
	for w := 0; w < workers; w++ {
		wg.Add(1)
		go func() {
			defer wg.Done()
			for j := range ch {
				base := filepath.Join(dir, fmt.Sprintf("x%05d", j.idx))
				zf := base + ".smt2"
				cf := base + ".cvc5.smt2"
				os.WriteFile(zf, []byte(j.c.script(j.o, 3000, "")), 0o644)
				os.WriteFile(cf, []byte(j.c.script(j.o, 3000, "ALL")), 0o644)
				r1 := runSolver("cvc5", []string{"--tlimit=3000", "--lang=smt2"}, cf, 3*time.Second)
				r2 := runSolver("z3", []string{"-T:3"}, zf, 3*time.Second)
				os.Remove(zf)
				os.Remove(cf)
				mu.Lock()
				for _, r := range []solverRun{r1, r2} {
					name := strings.Fields(r.solver)[0]
					switch r.verdict {
					case "unsat":
						counts[name+":agree"]++
					case "sat":
						counts[name+":DISAGREE"]++
						dis = append(dis, j.o.Name+" ("+name+" answers sat)")
					default:
						counts[name+":no-answer"]++
					}
				}
				mu.Unlock()
			}
		}()
	}
	for _, j := range jobs {
		if j.o.Canary || j.o.Status != "discharged" {
			continue
		}
		ch <- j
	}
	close(ch)
	wg.Wait()
	return counts, dis
}

// cpuFactor scales solver budgets on machines with few usable cores (the budgets are sized for 16): with n cores the
// factor is 16/n, at least 1 and at most 4. Sixteen obligations are in flight at a time, so on a small machine each
// solver process gets a fraction of a core.
func cpuFactor() int {
	n := runtime.NumCPU()
	f := 1
	if n < 16 {
		f = (16 + n - 1) / n
	}
	if f > 4 {
		f = 4
	}
	return f
}
