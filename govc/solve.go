package main

// Solver portfolio: z3-new (5.x) first, then cvc5 and z3 4.8 in parallel on unknown/timeout.

import (
	"bytes"
	"context"
	"fmt"
	"os"
	"os/exec"
	"path/filepath"
	"strings"
	"sync"
	"time"
)

type solverRun struct {
	verdict string // unsat sat unknown timeout error
	solver  string
	out     string
	secs    float64
}

func runSolverCtx(ctx context.Context, name string, args []string, file string, timeout time.Duration) solverRun {
	ctx2, cancel := context.WithTimeout(ctx, timeout+2*time.Second)
	defer cancel()
	t0 := time.Now()
	cmd := exec.CommandContext(ctx2, name, append(args, file)...)
	var out bytes.Buffer
	cmd.Stdout = &out
	cmd.Stderr = &out
	err := cmd.Run()
	secs := time.Since(t0).Seconds()
	o := out.String()
	for strings.HasPrefix(o, "WARNING") {
		if i := strings.Index(o, "\n"); i >= 0 {
			o = o[i+1:]
		} else {
			o = ""
		}
	}
	first := strings.TrimSpace(strings.SplitN(o, "\n", 2)[0])
	r := solverRun{solver: name + " " + strings.Join(args, " "), out: o, secs: secs}
	r.solver = strings.TrimSpace(r.solver)
	switch first {
	case "unsat", "sat", "unknown":
		r.verdict = first
	case "timeout":
		r.verdict = "timeout"
	default:
		if ctx2.Err() != nil {
			r.verdict = "timeout"
		} else if err != nil || first != "" {
			r.verdict = "error"
		} else {
			r.verdict = "unknown"
		}
	}
	return r
}

func runSolver(name string, args []string, file string, timeout time.Duration) solverRun {
	return runSolverCtx(context.Background(), name, args, file, timeout)
}

type solveOpts struct {
	dir      string
	timeout  time.Duration
	canaryTO time.Duration
	all      bool // run all solvers and report disagreement (thorough)
}

// solveObligation: z3 5.x first (short budget); if it does not decide, a portfolio runs in parallel —
// z3 5.x under different random seeds (quantifier instantiation is seed-sensitive), cvc5 and z3 4.8 —
// and the first definite answer wins.
func solveObligation(c *Ctx, o *Obligation, idx int, opts solveOpts) {
	to := opts.timeout
	if o.Canary {
		to = opts.canaryTO
	}
	base := filepath.Join(opts.dir, fmt.Sprintf("o%05d", idx))
	z3file := base + ".smt2"
	os.WriteFile(z3file, []byte(c.script(o, int(to.Milliseconds()), "")), 0o644)
	secs := int(to.Seconds())
	if secs < 1 {
		secs = 1
	}
	stage1 := to
	if !o.Canary && stage1 > 2*time.Second {
		stage1 = 2 * time.Second
	}
	s1 := int(stage1.Seconds())
	if s1 < 1 {
		s1 = 1
	}
	t0 := time.Now()
	r := runSolver("z3-new", []string{fmt.Sprintf("-T:%d", s1)}, z3file, stage1)
	final := r
	if r.verdict != "unsat" && r.verdict != "sat" && !o.Canary {
		cvcfile := base + ".cvc5.smt2"
		os.WriteFile(cvcfile, []byte("(set-option :produce-models true)\n"+c.script(o, int(to.Milliseconds()), "ALL")), 0o644)
		type cfg struct {
			name string
			args []string
			file string
		}
		cfgs := []cfg{
			{"z3-new", []string{fmt.Sprintf("-T:%d", secs), "smt.random_seed=7"}, z3file},
			{"z3-new", []string{fmt.Sprintf("-T:%d", secs), "smt.random_seed=13"}, z3file},
			{"z3-new", []string{fmt.Sprintf("-T:%d", secs), "smt.random_seed=42", "smt.qi.eager_threshold=50"}, z3file},
			{"cvc5", []string{fmt.Sprintf("--tlimit=%d", to.Milliseconds()), "--lang=smt2"}, cvcfile},
			{"z3", []string{fmt.Sprintf("-T:%d", secs)}, z3file},
		}
		ctx, cancel := context.WithCancel(context.Background())
		results := make(chan solverRun, len(cfgs))
		for _, cf := range cfgs {
			cf := cf
			go func() { results <- runSolverCtx(ctx, cf.name, cf.args, cf.file, to) }()
		}
		for range cfgs {
			rr := <-results
			if rr.verdict == "unsat" || rr.verdict == "sat" {
				final = rr
				break
			}
			if rr.verdict == "error" && final.verdict != "error" && !strings.Contains(rr.out, "model is not available") {
				// keep the first real error for reporting, but let the others finish
				if strings.HasPrefix(rr.solver, "z3-new") {
					final = rr
				}
			}
		}
		cancel()
		os.Remove(cvcfile)
	}
	o.Solver = final.solver
	o.Time = time.Since(t0).Seconds()
	o.Output = truncate(final.out, 4000)
	switch final.verdict {
	case "unsat":
		o.Status = "discharged"
	case "sat":
		o.Status = "refuted"
		o.Model = parseModel(final.out, o)
	case "error":
		o.Status = "error"
	default:
		o.Status = "unknown"
	}
	if strings.Contains(final.out, "(error ") && final.verdict != "unsat" && !strings.Contains(final.out, "model is not available") {
		o.Status = "error"
	}
	if os.Getenv("GOVC_KEEP") == "" {
		os.Remove(z3file)
	}
}

func truncate(s string, n int) string {
	if len(s) > n {
		return s[:n] + "...[truncated]"
	}
	return s
}

// parseModel extracts (get-value) pairs: ((t1 v1) (t2 v2) ...)
func parseModel(out string, o *Obligation) map[string]string {
	i := strings.Index(out, "\n")
	if i < 0 {
		return nil
	}
	rest := strings.TrimSpace(out[i+1:])
	if !strings.HasPrefix(rest, "(") {
		return nil
	}
	// split top-level pairs
	var pairs []string
	depth := 0
	start := -1
	inq := false
	for k := 0; k < len(rest); k++ {
		ch := rest[k]
		if ch == '|' {
			inq = !inq
		}
		if inq {
			continue
		}
		if ch == '(' {
			depth++
			if depth == 2 {
				start = k
			}
		} else if ch == ')' {
			if depth == 2 && start >= 0 {
				pairs = append(pairs, rest[start+1:k])
				start = -1
			}
			depth--
			if depth == 0 {
				break
			}
		}
	}
	m := map[string]string{}
	for k, p := range pairs {
		if k >= len(o.ModelVars) {
			break
		}
		term := o.ModelVars[k].Term
		val := strings.TrimSpace(strings.TrimPrefix(strings.TrimSpace(p), term))
		val = strings.Join(strings.Fields(val), " ")
		if strings.HasPrefix(val, "(- ") {
			val = "-" + strings.TrimSuffix(strings.TrimPrefix(val, "(- "), ")")
		}
		m[o.ModelVars[k].Name] = val
	}
	return m
}

type job struct {
	c   *Ctx
	o   *Obligation
	idx int
}

func solveAll(jobs []job, opts solveOpts, workers int) {
	ch := make(chan job)
	var wg sync.WaitGroup
	for w := 0; w < workers; w++ {
		wg.Add(1)
		go func() {
			defer wg.Done()
			for j := range ch {
				solveObligation(j.c, j.o, j.idx, opts)
			}
		}()
	}
	for _, j := range jobs {
		ch <- j
	}
	close(ch)
	wg.Wait()
}
