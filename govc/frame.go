package main

// Function-body encoder: CFG traversal, loop cutting, phis, returns.

import (
	"fmt"
	"go/types"
	"os"
	"runtime/debug"
	"sort"
	"strings"

	"golang.org/x/tools/go/ssa"
)

type EncError struct{ msg string }

func (e EncError) Error() string { return e.msg }

func encFail(f string, a ...interface{}) {
	if os.Getenv("GOVC_DEBUG") != "" {
		debug.PrintStack()
	}
	panic(EncError{fmt.Sprintf(f, a...)})
}

type retInfo struct {
	cond    Term
	st      *State
	results []Val
}

type loopInfo struct {
	header    *ssa.BasicBlock
	body      map[*ssa.BasicBlock]bool
	backEdges []*ssa.BasicBlock // latch blocks
	ordinal   int
	spec      *LoopSpec
	// filled at header time
	headState   *State           // state after havoc (for decreases/old)
	preState    *State           // state before havoc
	phiVals     map[*ssa.Phi]Val // havoced phi values
	decr0       Term             // value of variant at loop head
	headReach   Term
	mods        *modSet
	assertStart int // index of the first assertion made for this loop (its head, body, nested loops)
}

type Frame struct {
	bodyStart   int // index of the first assertion made while encoding the body (after axioms and requires)
	v           *Verifier
	ctx         *Ctx
	fn          *ssa.Function
	con         *Contract
	top         bool
	depth       int
	vals        map[ssa.Value]Val
	reach       map[*ssa.BasicBlock]Term
	out         map[*ssa.BasicBlock]*State
	edgeCond    map[[2]*ssa.BasicBlock]Term
	loops       map[*ssa.BasicBlock]*loopInfo
	params      []Val
	free        []Val
	entrySt     *State
	entryR      Term
	rets        []retInfo
	objPfx      string // obligation name prefix
	props       []string
	nonNil      map[Term]*ssa.BasicBlock
	dbgNames    map[string][]*ssa.DebugRef
	envBase     map[string]Val // contract-named params/results
	oldSt       *State
	counters    map[string]int
	callerDesc  string
	touched     map[string]string // comps written (comp -> sort) in this frame or inlined callees
	deferred    []*ssa.Defer
	cur         *ssa.BasicBlock
	inlineStack []string
	havocAll    bool
	modCache    []modEntry
	mvars       []modelVar
	iters       []*ssa.Range
	allocNote   bool
	canaryGoals map[int][]Term
	reachParts  map[*ssa.BasicBlock][]Term // disjuncts of a merge block's reach condition
}

func (fr *Frame) isBackEdge(from, to *ssa.BasicBlock) bool {
	return to.Dominates(from)
}

func (fr *Frame) findLoops() {
	fr.loops = map[*ssa.BasicBlock]*loopInfo{}
	fn := fr.fn
	for _, b := range fn.Blocks {
		for _, s := range b.Succs {
			if s.Dominates(b) {
				li := fr.loops[s]
				if li == nil {
					li = &loopInfo{header: s, body: map[*ssa.BasicBlock]bool{s: true}}
					fr.loops[s] = li
				}
				li.backEdges = append(li.backEdges, b)
				// natural loop: nodes reaching b without passing s
				stack := []*ssa.BasicBlock{b}
				for len(stack) > 0 {
					x := stack[len(stack)-1]
					stack = stack[:len(stack)-1]
					if li.body[x] {
						continue
					}
					li.body[x] = true
					for _, p := range x.Preds {
						stack = append(stack, p)
					}
				}
			}
		}
	}
	var hs []*ssa.BasicBlock
	for h := range fr.loops {
		hs = append(hs, h)
	}
	sort.Slice(hs, func(i, j int) bool { return hs[i].Index < hs[j].Index })
	for i, h := range hs {
		fr.loops[h].ordinal = i
		if fr.con != nil {
			fr.loops[h].spec = fr.con.Loops[i]
		}
	}
}

// rpo returns blocks in reverse post-order of the CFG without back edges.
func (fr *Frame) rpo() []*ssa.BasicBlock {
	seen := map[*ssa.BasicBlock]bool{}
	var post []*ssa.BasicBlock
	var dfs func(b *ssa.BasicBlock)
	dfs = func(b *ssa.BasicBlock) {
		seen[b] = true
		for _, s := range b.Succs {
			if seen[s] || fr.isBackEdge(b, s) {
				continue
			}
			dfs(s)
		}
		post = append(post, b)
	}
	dfs(fr.fn.Blocks[0])
	for i, j := 0, len(post)-1; i < j; i, j = i+1, j-1 {
		post[i], post[j] = post[j], post[i]
	}
	return post
}

func (fr *Frame) oblName(kind, label string) string {
	key := kind
	n := fr.counters[key]
	fr.counters[key] = n + 1
	if label == "" {
		label = fmt.Sprint(n)
	}
	return fmt.Sprintf("%s#%s[%s]", fr.objPfx, kind, label)
}

func (fr *Frame) addObl(kind, label string, goal Term, text string, pos string, props []string, canary bool) *Obligation {
	name := fr.oblName(kind, label)
	// split conjunctive goals: (=> g (and a b ...)) becomes one obligation per conjunct (smaller, more stable queries)
	if !canary {
		guard, body := splitImpl(goal)
		parts := splitConj(body)
		if len(parts) > 1 && len(parts) <= 16 {
			var last *Obligation
			for k, p := range parts {
				o := &Obligation{Name: fmt.Sprintf("%s/%d", name, k), Func: fr.objPfx, Kind: kind, Props: props, Goal: implies(guard, p), Text: text, Pos: pos}
				o.ModelVars = fr.v.modelVarsFor(fr)
				fr.ctx.oblige(o)
				last = o
			}
			return last
		}
	}
	o := &Obligation{Name: name, Func: fr.objPfx, Kind: kind, Props: props, Goal: goal, Text: text, Pos: pos, Canary: canary}
	o.ModelVars = fr.v.modelVarsFor(fr)
	fr.ctx.oblige(o)
	return o
}

// sexprArgs splits "(op a b c)" into op and top-level arguments; ok=false if t is not an application.
func sexprArgs(t Term) (op string, args []Term, ok bool) {
	if len(t) < 2 || t[0] != '(' || t[len(t)-1] != ')' {
		return "", nil, false
	}
	body := t[1 : len(t)-1]
	depth := 0
	inq := false
	start := 0
	var toks []string
	for i := 0; i < len(body); i++ {
		ch := body[i]
		if ch == '|' {
			inq = !inq
		}
		if inq {
			continue
		}
		switch ch {
		case '(':
			depth++
		case ')':
			depth--
		case ' ':
			if depth == 0 {
				if i > start {
					toks = append(toks, body[start:i])
				}
				start = i + 1
			}
		}
	}
	if start < len(body) {
		toks = append(toks, body[start:])
	}
	if len(toks) == 0 || depth != 0 {
		return "", nil, false
	}
	return toks[0], toks[1:], true
}

func splitImpl(t Term) (guard, body Term) {
	op, args, ok := sexprArgs(t)
	if ok && op == "=>" && len(args) == 2 {
		g2, b2 := splitImpl(args[1])
		return and(args[0], g2), b2
	}
	return "true", t
}

func splitConj(t Term) []Term {
	op, args, ok := sexprArgs(t)
	if ok && op == "and" {
		var out []Term
		for _, a := range args {
			out = append(out, splitConj(a)...)
		}
		return out
	}
	return []Term{t}
}

func (fr *Frame) safetyProps() []string {
	// automatic safety obligations are decided under the function's primary property and under C10
	var ps []string
	if len(fr.props) > 0 {
		ps = append(ps, fr.props[0])
	}
	if len(ps) == 0 || ps[0] != "C10" {
		ps = append(ps, "C10")
	}
	return ps
}

func (fr *Frame) posOf(i ssa.Instruction) string {
	p := i.Pos()
	if !p.IsValid() {
		return ""
	}
	pp := fr.v.fset.Position(p)
	return fmt.Sprintf("%s:%d", shortPath(pp.Filename), pp.Line)
}

func shortPath(p string) string {
	return strings.TrimPrefix(p, "/repo/")
}

// run encodes the body. For top frames, ensures/frame obligations are generated at returns.
func (fr *Frame) run() {
	fn := fr.fn
	if len(fn.Blocks) == 0 {
		encFail("function %s has no body", fn)
	}
	fr.findLoops()
	fr.collectDebug()
	order := fr.rpo()
	for _, b := range order {
		fr.cur = b
		var st *State
		var reach Term
		li := fr.loops[b]
		// incoming (non-back) edges
		type inEdge struct {
			from *ssa.BasicBlock
			cond Term
		}
		var ins []inEdge
		for _, p := range b.Preds {
			if fr.isBackEdge(p, b) {
				continue
			}
			if _, ok := fr.reach[p]; !ok {
				continue // unreachable predecessor (e.g. after panic)
			}
			ec, ok := fr.edgeCond[[2]*ssa.BasicBlock{p, b}]
			if !ok {
				continue
			}
			ins = append(ins, inEdge{p, ec})
		}
		if b == fn.Blocks[0] {
			st = fr.entrySt
			reach = fr.entryR
		} else {
			if len(ins) == 0 {
				continue // unreachable block
			}
			var conds []Term
			var mins []mergeIn
			for _, e := range ins {
				conds = append(conds, e.cond)
				mins = append(mins, mergeIn{e.cond, fr.out[e.from]})
			}
			if len(ins) == 1 {
				reach = conds[0]
				st = mins[0].st
			} else {
				r := fr.ctx.freshConst(fmt.Sprintf("R%d", b.Index), "Bool")
				fr.ctx.assert(eq(r, or(conds...)), fmt.Sprintf("reach block %d", b.Index))
				reach = r
				st = mergeStates(fr.ctx, mins)
				fr.reachParts[b] = conds
			}
			// name long reach terms
			if len(reach) > 40 && len(ins) == 1 {
				r := fr.ctx.freshConst(fmt.Sprintf("R%d", b.Index), "Bool")
				fr.ctx.assert(eq(r, reach), fmt.Sprintf("reach block %d", b.Index))
				reach = r
			}
		}
		fr.reach[b] = reach
		// phis
		k := 0
		for k < len(b.Instrs) {
			phi, ok := b.Instrs[k].(*ssa.Phi)
			if !ok {
				break
			}
			k++
			var vins []condVal
			for _, e := range ins {
				// find index of pred
				for pi, p := range b.Preds {
					if p == e.from {
						vins = append(vins, condVal{e.cond, fr.value(phi.Edges[pi])})
						break
					}
				}
			}
			if len(vins) == 0 {
				encFail("phi without incoming edges")
			}
			fr.vals[phi] = fr.mergeVals(vins, phi.Type(), phiHint(phi))
		}
		if li != nil {
			st = fr.loopHead(li, st, reach)
		}
		if cl := fr.exitCutFor(b); cl != nil {
			st = fr.loopExitCut(cl, b, st, reach)
		}
		// instructions
		for _, ins := range b.Instrs[k:] {
			st = fr.instr(ins, st, reach)
			if st == nil {
				break // block ends abnormally (panic / unsupported)
			}
		}
		if st != nil {
			fr.out[b] = st
		} else {
			delete(fr.reach, b)
		}
	}
}

func phiHint(p *ssa.Phi) string {
	if p.Comment != "" {
		return p.Comment
	}
	return p.Name()
}

type condVal struct {
	cond Term
	v    Val
}

// mergeVals builds a value equal to v_i under cond_i.
func (fr *Frame) mergeVals(ins []condVal, t types.Type, hint string) Val {
	same := true
	for _, cv := range ins[1:] {
		if !sameVal(cv.v, ins[0].v) {
			same = false
			break
		}
	}
	if same {
		return ins[0].v
	}
	// locations: must share component
	if ins[0].v.K == KLoc {
		l0 := ins[0].v.Loc
		for _, cv := range ins[1:] {
			if cv.v.K != KLoc || cv.v.Loc.Comp != l0.Comp {
				encFail("phi of pointers to different components (%s vs %v)", l0.Comp, cv.v)
			}
		}
		nl := &Loc{Comp: l0.Comp, T: l0.T}
		nl.Ref = fr.ctx.freshConst(hint+".ref", "Int")
		for _, cv := range ins {
			fr.ctx.assert(implies(cv.cond, eq(nl.Ref, orZero(cv.v.Loc.Ref))), "phi loc")
		}
		if l0.Idx != "" {
			nl.Idx = fr.ctx.freshConst(hint+".idx", "Int")
			for _, cv := range ins {
				fr.ctx.assert(implies(cv.cond, eq(nl.Idx, add(orZero(cv.v.Loc.Off), cv.v.Loc.Idx))), "phi loc")
			}
		}
		return Val{K: KLoc, T: t, Loc: nl}
	}
	res := fr.freshVal(t, hint)
	if res.K == KFunc {
		// keep static function if all agree
		fn0 := ins[0].v.Fn
		for _, cv := range ins[1:] {
			if cv.v.Fn != fn0 {
				fn0 = nil
			}
		}
		res.Fn = fn0
		if fn0 != nil {
			res.Bind = ins[0].v.Bind
		}
	}
	for _, cv := range ins {
		fr.ctx.assert(implies(cv.cond, eqVal(res, cv.v)), "phi "+hint)
	}
	return res
}

func orZero(t Term) Term {
	if t == "" {
		return "0"
	}
	return t
}

func sameVal(a, b Val) bool {
	if a.K != b.K {
		return false
	}
	switch a.K {
	case KSlice:
		return a.A == b.A && a.Off == b.Off && a.Len == b.Len && a.Cap == b.Cap
	case KStruct, KTuple:
		if len(a.Fields) != len(b.Fields) {
			return false
		}
		for i := range a.Fields {
			if !sameVal(a.Fields[i], b.Fields[i]) {
				return false
			}
		}
		return true
	case KLoc:
		return a.Loc.Comp == b.Loc.Comp && a.Loc.Ref == b.Loc.Ref && a.Loc.Idx == b.Loc.Idx && orZero(a.Loc.Off) == orZero(b.Loc.Off)
	case KFunc:
		return a.A == b.A && a.Fn == b.Fn
	}
	return a.A == b.A
}

func eqVal(a, b Val) Term {
	switch a.K {
	case KSlice:
		if b.K != KSlice {
			encFail("eqVal: kind mismatch slice vs %v", b.K)
		}
		return and(eq(a.A, b.A), eq(a.Off, b.Off), eq(a.Len, b.Len), eq(a.Cap, b.Cap))
	case KStruct, KTuple:
		var cs []Term
		if len(a.Fields) != len(b.Fields) {
			encFail("eqVal: struct arity mismatch")
		}
		for i := range a.Fields {
			cs = append(cs, eqVal(a.Fields[i], b.Fields[i]))
		}
		return and(cs...)
	case KLoc:
		if b.K != KLoc || a.Loc.Comp != b.Loc.Comp {
			encFail("eqVal: location component mismatch")
		}
		return and(eq(orZero(a.Loc.Ref), orZero(b.Loc.Ref)), eq(add(orZero(a.Loc.Off), orZero(a.Loc.Idx)), add(orZero(b.Loc.Off), orZero(b.Loc.Idx))))
	case KUnit:
		return "true"
	}
	return eq(a.A, b.A)
}

// freshVal declares an unconstrained value of type t (with type-range facts asserted).
func (fr *Frame) freshVal(t types.Type, hint string) Val {
	return fr.v.freshValIn(fr.ctx, t, hint)
}

func (v *Verifier) freshValIn(c *Ctx, t types.Type, hint string) Val {
	switch kindOf(t) {
	case KInt:
		x := c.freshConst(hint, "Int")
		c.assert(rangeAssump(t, x), "")
		return Val{K: KInt, T: t, A: x}
	case KBool:
		return Val{K: KBool, T: t, A: c.freshConst(hint, "Bool")}
	case KStr:
		s := c.freshConst(hint, "Str")
		v.strFacts(c, s)
		return Val{K: KStr, T: t, A: s}
	case KRef, KArr, KMap:
		x := c.freshConst(hint, "Int")
		c.assert(le("0", x), "")
		return Val{K: kindOf(t), T: t, A: x}
	case KIface, KFunc:
		x := c.freshConst(hint, "Int")
		c.assert(le("0", x), "")
		return Val{K: kindOf(t), T: t, A: x}
	case KLoc:
		x := c.freshConst(hint, "Int")
		c.assert(le("0", x), "")
		pt := t.Underlying().(*types.Pointer).Elem()
		return Val{K: KLoc, T: t, Loc: &Loc{Comp: "C:" + typeName(pt), Ref: x, T: pt}}
	case KSlice:
		r := c.freshConst(hint+".ref", "Int")
		o := c.freshConst(hint+".off", "Int")
		l := c.freshConst(hint+".len", "Int")
		cp := c.freshConst(hint+".cap", "Int")
		sv := Val{K: KSlice, T: t, A: r, Off: o, Len: l, Cap: cp}
		c.assert(sliceWF(sv), "")
		return sv
	case KStruct:
		st := t.Underlying().(*types.Struct)
		res := Val{K: KStruct, T: t}
		for i := 0; i < st.NumFields(); i++ {
			res.Fields = append(res.Fields, v.freshValIn(c, st.Field(i).Type(), hint+"."+st.Field(i).Name()))
		}
		return res
	case KTuple:
		tp := t.(*types.Tuple)
		res := Val{K: KTuple, T: t}
		for i := 0; i < tp.Len(); i++ {
			res.Fields = append(res.Fields, v.freshValIn(c, tp.At(i).Type(), fmt.Sprintf("%s.%d", hint, i)))
		}
		return res
	}
	encFail("freshVal: unsupported type %s", t)
	return Val{}
}

func sliceWF(s Val) Term {
	return and(le("0", s.A), le("0", s.Off), le("0", s.Len), le(s.Len, s.Cap), le(add(s.Off, s.Cap), maxLenTerm),
		implies(eq(s.A, "0"), and(eq(s.Len, "0"), eq(s.Cap, "0"), eq(s.Off, "0"))))
}

// collectDebug indexes DebugRef instructions by variable name (requires ssa.GlobalDebug).
func (fr *Frame) collectDebug() {
	fr.dbgNames = map[string][]*ssa.DebugRef{}
	for _, b := range fr.fn.Blocks {
		for _, ins := range b.Instrs {
			if d, ok := ins.(*ssa.DebugRef); ok {
				if obj := d.Object(); obj != nil {
					fr.dbgNames[obj.Name()] = append(fr.dbgNames[obj.Name()], d)
				}
			}
		}
	}
}

// loopHead performs: assert invariants on entry, havoc, assume invariants.
func (fr *Frame) loopHead(li *loopInfo, st *State, reach Term) *State {
	b := li.header
	if li.spec == nil {
		li.spec = &LoopSpec{Ordinal: li.ordinal}
	}
	li.preState = st
	li.assertStart = len(fr.ctx.asserts)
	// entry check with merged phi values (already in fr.vals)
	for j, inv := range li.spec.Invariants {
		env := fr.specEnv(st, fr.oldSt)
		env.at = b
		t := fr.v.evalBool(env, inv.Expr)
		lab := inv.Label
		if lab == "" {
			lab = fmt.Sprint(j)
		}
		fr.addObl("inv-entry", fmt.Sprintf("loop %d;%s", li.ordinal, lab), implies(reach, t), inv.Text, fmt.Sprintf("%s:%d", shortPath(inv.File), inv.Line), fr.clauseProps(inv), inv.Canary)
	}
	// havoc phis
	li.phiVals = map[*ssa.Phi]Val{}
	for _, ins := range b.Instrs {
		phi, ok := ins.(*ssa.Phi)
		if !ok {
			break
		}
		nv := fr.freshVal(phi.Type(), phiHint(phi)+"@L")
		if fr.vals[phi].K == KLoc {
			// keep component; havoc ref/idx
			ol := fr.vals[phi].Loc
			nl := &Loc{Comp: ol.Comp, T: ol.T, Ref: fr.ctx.freshConst("locref", "Int")}
			if ol.Idx != "" {
				nl.Idx = fr.ctx.freshConst("locidx", "Int")
			}
			nv = Val{K: KLoc, T: phi.Type(), Loc: nl}
		}
		if nv.K == KFunc {
			nv.Fn = fr.vals[phi].Fn
			nv.Bind = fr.vals[phi].Bind
		}
		fr.vals[phi] = nv
		li.phiVals[phi] = nv
	}
	// havoc heap components written in loop
	mods := fr.v.loopModSet(fr, li)
	for comp, srt := range mods.comps {
		fr.touched[comp] = srt
	}
	// the frame-as-invariant must hold on entry to the loop
	if fr.rootFrame().modifiesAll("*") {
		mods = &modSet{comps: map[string]string{}, all: mods.all, allocates: mods.allocates}
	}
	for _, t := range fr.frameTerms(st, mods) {
		fr.addObl("loop-frame-entry", fmt.Sprintf("loop %d;%s", li.ordinal, t.comp), implies(reach, t.term), "frame of "+t.comp+" holds at loop entry", "", fr.props, false)
	}
	hs := havocState(fr.ctx, st, fmt.Sprintf("loop %d", li.ordinal), func(comp string) havocSpec {
		if mods.all || mods.has(strings.TrimPrefix(comp, "N|")) {
			return havocSpec{mode: hvAll}
		}
		return havocSpec{mode: hvNone}
	}, mods.allocates)
	li.headState = hs
	li.headReach = reach
	// assume invariants
	for _, inv := range li.spec.Invariants {
		if inv.Canary {
			continue
		}
		env := fr.specEnv(hs, fr.oldSt)
		env.at = b
		t := fr.v.evalBool(env, inv.Expr)
		fr.ctx.assert(implies(reach, t), "assume invariant: "+inv.Text)
	}
	for _, as := range li.spec.Assumes {
		env := fr.specEnv(hs, fr.oldSt)
		env.at = b
		t := fr.v.evalBool(env, as.Expr)
		fr.ctx.assert(implies(reach, t), "ASSUMED at loop head (listed in evidence): "+as.Text)
		fr.v.note(fr.objPfx + ": assumed at loop head without proof: " + as.Text)
	}
	// frame-as-invariant: for top frames with a modifies clause, pre-existing objects outside the
	// modifies list keep their entry values (re-proved at back edges).
	for _, t := range fr.frameTerms(hs, mods) {
		fr.ctx.assert(implies(reach, t.term), "assume loop frame "+t.comp)
	}
	if li.spec.Decreases != nil {
		env := fr.specEnv(hs, fr.oldSt)
		env.at = b
		d := fr.v.evalSpec(env, li.spec.Decreases.Expr)
		li.decr0 = d.A
	}
	for _, inv := range li.spec.Invariants {
		if inv.Canary {
			continue
		}
		env := fr.specEnv(hs, fr.oldSt)
		env.at = b
		hs = fr.pinUnchanged(env, inv.Expr, hs)
	}
	if os.Getenv("GOVC_DEBUG") != "" {
		fmt.Printf("debug loopHead %d isolated=%v bodyStart=%d assertStart=%d now=%d\n", li.ordinal, li.spec.Isolated, fr.rootFrame().bodyStart, li.assertStart, len(fr.ctx.asserts))
		for k, a := range fr.ctx.asserts {
			if strings.Contains(a.comment, "sort.Sort") {
				fmt.Printf("debug   assert %d hideAfter=%d %s\n", k, a.hideAfter, a.comment)
			}
		}
	}
	if li.spec.Isolated {
		// the loop is reasoned about from its invariants alone: quantified facts stated earlier in the body
		// (callee postconditions, lemmas) are not shown to obligations from here on (fewer hypotheses: sound)
		idx := len(fr.ctx.asserts)
		for k := fr.rootFrame().bodyStart; k < li.assertStart; k++ {
			t := fr.ctx.asserts[k].term
			if (strings.Contains(t, "(forall ") || strings.Contains(t, "(exists ")) && fr.ctx.asserts[k].hideAfter == 0 {
				fr.ctx.asserts[k].hideAfter = idx
			}
		}
		fr.ctx.cuts = append(fr.ctx.cuts, idx)
	}
	li.headState = hs
	return hs
}

// exitCutFor: b is the (unique) block in which loop li is left and li has exit clauses.
func (fr *Frame) exitCutFor(b *ssa.BasicBlock) *loopInfo {
	for _, li := range fr.loops {
		if li.spec == nil || len(li.spec.Exits) == 0 || li.body[b] {
			continue
		}
		var exits []*ssa.BasicBlock
		seen := map[*ssa.BasicBlock]bool{}
		for lb := range li.body {
			for _, s := range lb.Succs {
				if !li.body[s] && !seen[s] {
					seen[s] = true
					exits = append(exits, s)
				}
			}
		}
		if len(exits) != 1 {
			encFail("loop %d has %d exit blocks; an exit clause needs exactly one", li.ordinal, len(exits))
		}
		if exits[0] == b {
			// (the exit block may also be entered from before the loop, e.g. a zero-iteration guard: the clauses are
			// then proved for the merged state, which covers that path as well)
			return li
		}
	}
	return nil
}

// loopExitCut: the exit clauses are proved in the state in which the loop is left; then every heap component written
// so far is forgotten and only the exit clauses (and the function's frame) are assumed about it. Local values keep
// their meaning. Later obligations therefore see the loop through its exit clauses, not through its invariants.
func (fr *Frame) loopExitCut(li *loopInfo, b *ssa.BasicBlock, st *State, reach Term) *State {
	for j, ex := range li.spec.Exits {
		env := fr.specEnv(st, fr.oldSt)
		env.at = b
		t := fr.v.evalBool(env, ex.Expr)
		lab := ex.Label
		if lab == "" {
			lab = fmt.Sprint(j)
		}
		fr.addObl("loop-exit", fmt.Sprintf("loop %d;%s", li.ordinal, lab), implies(reach, t), ex.Text, fmt.Sprintf("%s:%d", shortPath(ex.File), ex.Line), fr.clauseProps(ex), ex.Canary)
	}
	mods := &modSet{comps: map[string]string{}, allocates: true}
	for comp, srt := range fr.touched {
		mods.comps[comp] = srt
	}
	if fr.rootFrame().modifiesAll("*") {
		mods = &modSet{comps: map[string]string{}, all: true, allocates: true}
	}
	for _, t := range fr.frameTerms(st, mods) {
		fr.addObl("loop-exit-frame", fmt.Sprintf("loop %d;%s", li.ordinal, t.comp), implies(reach, t.term), "frame of "+t.comp+" holds where the loop is left", "", fr.props, false)
	}
	// quantified facts stated for the loop (assumed invariants, callee postconditions inside it) are not shown to
	// obligations after the cut: fewer hypotheses, hence sound, and the solver is not distracted by them
	cutIdx := len(fr.ctx.asserts)
	// (everything said since the function body started: the cut's exit clauses are all that is kept of it)
	for k := fr.rootFrame().bodyStart; k < cutIdx; k++ {
		t := fr.ctx.asserts[k].term
		if (strings.Contains(t, "(forall ") || strings.Contains(t, "(exists ")) && fr.ctx.asserts[k].hideAfter == 0 {
			fr.ctx.asserts[k].hideAfter = cutIdx
		}
	}
	fr.ctx.cuts = append(fr.ctx.cuts, cutIdx)
	hs := havocState(fr.ctx, st, fmt.Sprintf("exit of loop %d", li.ordinal), func(comp string) havocSpec {
		if mods.all || mods.has(strings.TrimPrefix(comp, "N|")) {
			return havocSpec{mode: hvAll}
		}
		return havocSpec{mode: hvNone}
	}, mods.allocates)
	for _, ex := range li.spec.Exits {
		if ex.Canary {
			continue
		}
		env := fr.specEnv(hs, fr.oldSt)
		env.at = b
		t := fr.v.evalBool(env, ex.Expr)
		fr.ctx.assert(implies(reach, t), "assume exit clause: "+ex.Text)
	}
	for _, t := range fr.frameTerms(hs, mods) {
		fr.ctx.assert(implies(reach, t.term), "assume frame after loop exit "+t.comp)
	}
	for _, ex := range li.spec.Exits {
		if ex.Canary {
			continue
		}
		env := fr.specEnv(hs, fr.oldSt)
		env.at = b
		hs = fr.pinUnchanged(env, ex.Expr, hs)
	}
	return hs
}

type frameTerm struct {
	comp string
	term Term
}

// frameTerms: for each component in mods, "objects allocated before entry and not listed in modifies are unchanged since entry".
func (fr *Frame) frameTerms(st *State, mods *modSet) []frameTerm {
	root := fr.rootFrame()
	if root.con == nil {
		return nil
	}
	var out []frameTerm
	for _, comp := range mods.sorted() {
		if strings.HasPrefix(comp, "N|") {
			continue
		}
		srt := mods.comps[comp]
		t := root.frameTermFor(comp, srt, st)
		if t != "" {
			out = append(out, frameTerm{comp, t})
		}
	}
	return out
}

func (fr *Frame) rootFrame() *Frame {
	return fr.v.curRoot
}

// frameTermFor builds the frame condition for one component between the root frame's entry state and st.
func (root *Frame) frameTermFor(comp, srt string, st *State) Term {
	if !strings.HasPrefix(srt, "(Array") {
		// global scalar
		if root.modifiesAll(comp) {
			return ""
		}
		return eq(root.ctx.get(st, comp, srt), root.ctx.get(root.entrySt, comp, srt))
	}
	if root.modifiesAll(comp) {
		return ""
	}
	refs := root.modifiedRefs(comp)
	var conds []Term
	for _, r := range refs {
		conds = append(conds, not(eq("r!", r)))
	}
	cur := root.ctx.get(st, comp, srt)
	old := root.ctx.get(root.entrySt, comp, srt)
	if cur == old {
		return ""
	}
	return fmt.Sprintf("(forall ((r! Int)) (! %s :pattern (%s)))", implies(and(conds...), eq(sel(cur, "r!"), sel(old, "r!"))), sel(cur, "r!"))
}

func (fr *Frame) clauseProps(c *Clause) []string {
	if c.Props != nil {
		return c.Props
	}
	return fr.props
}

// backEdge asserts invariants, frame and variant at a back edge from block u to header h.
func (fr *Frame) backEdge(u, h *ssa.BasicBlock, cond Term, st *State) {
	li := fr.loops[h]
	// phi substitution: values flowing along this edge
	subst := map[*ssa.Phi]Val{}
	pi := -1
	for i, p := range h.Preds {
		if p == u {
			pi = i
		}
	}
	for _, ins := range h.Instrs {
		phi, ok := ins.(*ssa.Phi)
		if !ok {
			break
		}
		subst[phi] = fr.value(phi.Edges[pi])
	}
	for j, inv := range li.spec.Invariants {
		env := fr.specEnv(st, fr.oldSt)
		env.at = h
		env.phiSubst = subst
		t := fr.v.evalBool(env, inv.Expr)
		lab := inv.Label
		if lab == "" {
			lab = fmt.Sprint(j)
		}
		fr.addObl("inv-preserved", fmt.Sprintf("loop %d;%s", li.ordinal, lab), implies(cond, t), inv.Text, fmt.Sprintf("%s:%d", shortPath(inv.File), inv.Line), fr.clauseProps(inv), inv.Canary)
	}
	if li.spec.Decreases != nil {
		env := fr.specEnv(st, fr.oldSt)
		env.at = h
		env.phiSubst = subst
		d := fr.v.evalSpec(env, li.spec.Decreases.Expr)
		goal := implies(cond, and(le("0", li.decr0), lt(d.A, li.decr0)))
		fr.addObl("decreases", fmt.Sprintf("loop %d", li.ordinal), goal, li.spec.Decreases.Text, fmt.Sprintf("%s:%d", shortPath(li.spec.Decreases.File), li.spec.Decreases.Line), fr.clauseProps(li.spec.Decreases), false)
	}
	// loop frame preserved
	mods := fr.v.loopModSet(fr, li)
	for _, t := range fr.frameTerms(st, mods) {
		fr.addObl("loop-frame", fmt.Sprintf("loop %d;%s", li.ordinal, t.comp), implies(cond, t.term), "frame of "+t.comp+" preserved by loop", "", fr.props, false)
	}
}
