package main

// Calls: builtins, contract application, inlining, function values, returns.

import (
	"fmt"
	"go/types"
	"regexp"
	"strings"

	"golang.org/x/tools/go/ssa"
)

// pkgKey: short package name, except for non-repository packages whose name collides with a repository package.
func pkgKey(p *types.Package) string {
	if p == nil {
		return "?"
	}
	if !strings.HasPrefix(p.Path(), "github.com/dlclark/regexp2") {
		switch p.Name() {
		case "syntax", "helpers", "compat", "regexp2":
			return p.Path()
		}
	}
	return p.Name()
}

func funcKey(fn *ssa.Function) string {
	if fn.Pkg == nil {
		// methods of instantiated generics / wrappers / synthetic
		if fn.Origin() != nil && fn.Origin().Pkg != nil {
			return pkgKey(fn.Origin().Pkg.Pkg) + "." + fn.RelString(fn.Origin().Pkg.Pkg)
		}
		if o := fn.Object(); o != nil && o.Pkg() != nil {
			return pkgKey(o.Pkg()) + "." + fn.RelString(o.Pkg())
		}
		return fn.String()
	}
	return pkgKey(fn.Pkg.Pkg) + "." + fn.RelString(fn.Pkg.Pkg)
}

func (fr *Frame) call(i *ssa.Call, st *State, reach Term) *State {
	res, nst := fr.doCall(i, i.Common(), st, reach)
	fr.vals[i] = res
	return nst
}

func (fr *Frame) doCall(ins ssa.Instruction, cc *ssa.CallCommon, st *State, reach Term) (Val, *State) {
	if cc.IsInvoke() {
		return fr.unknownCall(ins, cc, nil, st, reach, "interface method "+cc.Method.Name())
	}
	var args []Val
	switch callee := cc.Value.(type) {
	case *ssa.Builtin:
		return fr.builtin(ins, callee, cc, st, reach)
	}
	for _, a := range cc.Args {
		args = append(args, fr.value(a))
	}
	if fn := cc.StaticCallee(); fn != nil {
		var binds []Val
		if mc, ok := cc.Value.(*ssa.MakeClosure); ok {
			for _, b := range mc.Bindings {
				binds = append(binds, fr.value(b))
			}
		}
		return fr.callFunction(ins, fn, args, binds, st, reach)
	}
	// dynamic call through a function value
	fv := fr.value(cc.Value)
	if fv.Fn != nil {
		if fn, ok := fv.Fn.(*ssa.Function); ok {
			return fr.callFunction(ins, fn, args, fv.Bind, st, reach)
		}
	}
	// funcspec attached by name?
	name := fr.nameOfValue(cc.Value)
	root := fr
	if root.con != nil {
		if specName, ok := root.con.Calls[name]; ok {
			fs := fr.v.contracts.FuncSpecs[fr.fn.Pkg.Pkg.Name()+"."+specName]
			if fs == nil {
				encFail("funcspec %s not found", specName)
			}
			fr.nilCheckFunc(ins, fv, reach)
			return fr.applyContract(ins, fs, nil, args, nil, st, reach, "funcspec "+specName)
		}
	}
	return fr.unknownCall(ins, cc, args, st, reach, "function value "+name)
}

func (fr *Frame) nilCheckFunc(ins ssa.Instruction, fv Val, reach Term) {
	fr.addObl("nil", "", implies(reach, not(eq(fv.A, "0"))), "call of nil function value: "+ins.String(), fr.posOf(ins), fr.safetyProps(), false)
}

// nameOfValue finds a source-level name for a value (phi comment, debug ref, field name).
func (fr *Frame) nameOfValue(x ssa.Value) string {
	if phi, ok := x.(*ssa.Phi); ok && phi.Comment != "" {
		return phi.Comment
	}
	for name, refs := range fr.dbgNames {
		for _, d := range refs {
			if d.X == x {
				return name
			}
		}
	}
	if u, ok := x.(*ssa.UnOp); ok {
		if fa, ok := u.X.(*ssa.FieldAddr); ok {
			st := fa.X.Type().Underlying().(*types.Pointer).Elem().Underlying().(*types.Struct)
			return st.Field(fa.Field).Name()
		}
	}
	return x.Name()
}

func (fr *Frame) callFunction(ins ssa.Instruction, fn *ssa.Function, args, binds []Val, st *State, reach Term) (Val, *State) {
	key := funcKey(fn)
	con := fr.v.contracts.Funcs[key]
	if con == nil && fn.Origin() != nil {
		con = fr.v.contracts.Funcs[funcKey(fn.Origin())]
	}
	if con != nil && !con.Inline {
		return fr.applyContract(ins, con, fn, args, binds, st, reach, key)
	}
	if con != nil && con.Inline || fr.v.autoInline(fn) {
		return fr.inlineCall(ins, fn, con, args, binds, st, reach)
	}
	if r, nst, ok := fr.v.libCall(fr, ins, fn, args, st, reach); ok {
		return r, nst
	}
	return fr.unknownCallFn(ins, fn, args, st, reach)
}

// unknownCall: no contract. Result is unconstrained; the heap components the callee may write (per the
// whole-program mod analysis) are havoced; the callee is recorded as assumed panic-free.
func (fr *Frame) unknownCall(ins ssa.Instruction, cc *ssa.CallCommon, args []Val, st *State, reach Term, what string) (Val, *State) {
	fr.v.assumedCallees[what+" (called from "+fr.objPfx+")"] = true
	fr.note("call to " + what + " without contract: all heap components havoced, assumed not to panic")
	nst := havocState(fr.ctx, st, "unknown call", func(comp string) havocSpec { return havocSpec{mode: hvAll} }, true)
	fr.rootFrame().havocAll = true
	var res Val
	sig := cc.Signature()
	res = fr.resultVal(sig.Results(), "ret")
	return res, nst
}

func (fr *Frame) resultVal(tp *types.Tuple, hint string) Val {
	switch tp.Len() {
	case 0:
		return Val{K: KUnit}
	case 1:
		return fr.freshVal(tp.At(0).Type(), hint)
	}
	return fr.freshVal(tp, hint)
}

func (fr *Frame) unknownCallFn(ins ssa.Instruction, fn *ssa.Function, args []Val, st *State, reach Term) (Val, *State) {
	key := funcKey(fn)
	// diagnostic output (fmt / log printing, runtime debug helpers) does not touch the modelled heap: no havoc, the
	// results are unconstrained. Listed as an assumption like any other callee without contract.
	if fn.Pkg != nil && fn.Pkg.Pkg != nil {
		switch fn.Pkg.Pkg.Path() {
		case "fmt", "log":
			n := fn.Name()
			if strings.HasPrefix(n, "Print") || strings.HasPrefix(n, "Fprint") || strings.HasPrefix(n, "Sprint") || strings.HasPrefix(n, "Fatal") == false && strings.HasPrefix(n, "Log") {
				fr.v.assumedCallees[key] = true
				fr.note("call to " + key + ": diagnostic output, assumed not to touch the modelled heap")
				return fr.resultVal(fn.Signature.Results(), "ret"), st
			}
		}
	}
	ms := fr.v.modOf(fn)
	fr.v.assumedCallees[key] = true
	if ms.all {
		fr.note("call to " + key + " without contract (unbounded effects): all heap components havoced, assumed not to panic")
		nst := havocState(fr.ctx, st, "call "+key, func(comp string) havocSpec { return havocSpec{mode: hvAll} }, true)
		fr.rootFrame().havocAll = true
		return fr.resultVal(fn.Signature.Results(), "ret"), nst
	}
	for c, s := range ms.comps {
		fr.touch(c, s)
	}
	nst := havocState(fr.ctx, st, "call "+key, func(comp string) havocSpec {
		if ms.has(strings.TrimPrefix(comp, "N|")) {
			return havocSpec{mode: hvAll}
		}
		return havocSpec{mode: hvNone}
	}, true)
	return fr.resultVal(fn.Signature.Results(), "ret"), nst
}

// bindContractEnv binds the names used in a contract header to actual values.
func (fr *Frame) bindContractEnv(con *Contract, fn *ssa.Function, args, binds []Val, pkg *types.Package) map[string]Val {
	vars := map[string]Val{}
	k := 0
	if con.Recv != nil {
		if len(args) == 0 {
			encFail("contract %s has a receiver but call has no arguments", con.Key)
		}
		vars[con.Recv.Name] = args[0]
		k = 1
	}
	if len(args)-k != len(con.Params) {
		encFail("contract %s declares %d parameters, call passes %d", con.Key, len(con.Params), len(args)-k)
	}
	for j, p := range con.Params {
		a := args[k+j]
		// a concrete value boxed into an interface at the call site is seen through when the contract declares the concrete type
		if a.K == KIface && len(a.Fields) == 1 && (strings.HasPrefix(p.Type, "[]") || strings.HasPrefix(p.Type, "*")) {
			a = a.Fields[0]
		}
		vars[p.Name] = a
	}
	for j, f := range con.Free {
		if j < len(binds) {
			vars[f.Name] = binds[j]
		}
	}
	return vars
}

type modEntry struct {
	comp string
	sort string
	ref  Term // "" => all refs (or global)
	all  bool
}

// evalModifies turns the modifies clauses into (component, ref) pairs evaluated in state st.
func (v *Verifier) evalModifies(fr *Frame, con *Contract, vars map[string]Val, st *State, pkg *types.Package) []modEntry {
	var out []modEntry
	for _, cl := range con.Modifies {
		for _, part := range splitTop(cl.Text, ',') {
			part = strings.TrimSpace(part)
			if part == "" || part == "nothing" {
				continue
			}
			out = append(out, v.evalModEntry(fr, part, vars, st, pkg)...)
		}
	}
	return out
}

func (v *Verifier) evalModEntry(fr *Frame, text string, vars map[string]Val, st *State, pkg *types.Package) []modEntry {
	env := &Env{fr: nil, vars: vars, cur: st, old: st, pkg: pkg}
	var out []modEntry
	if text == "*" {
		return []modEntry{{comp: "*", all: true}}
	}
	addLeaves := func(prefix string, t types.Type, ref Term, elem bool) {
		for _, sc := range v.leafComps(t) {
			srt := arrSort(sc.sort)
			if elem {
				srt = arr2Sort(sc.sort)
			}
			if strings.HasPrefix(prefix, "G:") {
				srt = sc.sort
			}
			out = append(out, modEntry{comp: prefix + sc.suffix, sort: srt, ref: ref})
		}
	}
	// cells(T): every heap cell of type T reached through a *T pointer (coarse: pooled buffer headers etc.)
	if strings.HasPrefix(text, "cells(") && strings.HasSuffix(text, ")") {
		ct := v.resolveType(pkg, strings.TrimSuffix(strings.TrimPrefix(text, "cells("), ")"))
		addLeaves("C:"+typeName(ct), ct, "", false)
		return out
	}
	// elems(T): every element of every slice/array with element type T (coarse)
	if strings.HasPrefix(text, "elems(") && strings.HasSuffix(text, ")") {
		et := v.resolveType(pkg, strings.TrimSuffix(strings.TrimPrefix(text, "elems("), ")"))
		addLeaves("E:"+typeName(et), et, "", true)
		return out
	}
	// objs(T).f: field f of every object of struct type T
	if m := regexp.MustCompile(`^objs\(([^)]*)\)\.([A-Za-z0-9_]+)$`).FindStringSubmatch(text); m != nil {
		ot := v.resolveType(pkg, m[1])
		stt := ot.Underlying().(*types.Struct)
		for i := 0; i < stt.NumFields(); i++ {
			if stt.Field(i).Name() == m[2] {
				addLeaves(fieldCompName(ot, m[2]), stt.Field(i).Type(), "", false)
				return out
			}
		}
		encFail("modifies %s: no such field", text)
	}
	// objs(T): every field of every object of struct type T (coarse: objects owned by pools / caches)
	if strings.HasPrefix(text, "objs(") && strings.HasSuffix(text, ")") {
		ot := v.resolveType(pkg, strings.TrimSuffix(strings.TrimPrefix(text, "objs("), ")"))
		ms := newModSet()
		v.addObjComps(ms, ot)
		for _, c := range ms.sorted() {
			out = append(out, modEntry{comp: c, sort: ms.comps[c], ref: ""})
		}
		return out
	}
	// x.*  : all fields of the object
	if strings.HasSuffix(text, ".*") {
		e, err := parseSpec(strings.TrimSuffix(text, ".*"))
		if err != nil {
			encFail("modifies: %v", err)
		}
		base := v.evalSpec(env, e)
		if base.K != KRef {
			encFail("modifies %s: not an object", text)
		}
		pt := base.T.Underlying().(*types.Pointer).Elem()
		var walk func(ref Term, t types.Type)
		walk = func(ref Term, t types.Type) {
			stt := t.Underlying().(*types.Struct)
			for i := 0; i < stt.NumFields(); i++ {
				fv := v.curRoot.fieldOf(ref, t, i)
				switch fv.K {
				case KRef:
					walk(fv.A, stt.Field(i).Type())
				case KArr:
					at := stt.Field(i).Type().Underlying().(*types.Array)
					addLeaves("E:"+typeName(at.Elem()), at.Elem(), fv.A, true)
				default:
					addLeaves(fv.Loc.Comp, stt.Field(i).Type(), ref, false)
				}
			}
		}
		walk(base.A, pt)
		return out
	}
	// s[*] : all elements of the slice's backing array
	if strings.HasSuffix(text, "[*]") {
		e, err := parseSpec(strings.TrimSuffix(text, "[*]"))
		if err != nil {
			encFail("modifies: %v", err)
		}
		base := v.evalSpec(env, e)
		switch base.K {
		case KSlice:
			et := base.T.Underlying().(*types.Slice).Elem()
			addLeaves("E:"+typeName(et), et, base.A, true)
		case KArr:
			var at *types.Array
			if p, ok := base.T.Underlying().(*types.Pointer); ok {
				at = p.Elem().Underlying().(*types.Array)
			} else {
				at = base.T.Underlying().(*types.Array)
			}
			addLeaves("E:"+typeName(at.Elem()), at.Elem(), base.A, true)
		default:
			encFail("modifies %s: not a slice", text)
		}
		return out
	}
	// location expression: x.f, *p, x.f.g
	e, err := parseSpec(text)
	if err != nil {
		encFail("modifies: %v", err)
	}
	l, t := v.evalLocation(env, e)
	if l == nil {
		encFail("modifies %s: not a location", text)
	}
	if l.isElem() {
		addLeaves(l.Comp, t, l.Ref, true) // whole backing array (coarse)
	} else {
		addLeaves(l.Comp, t, l.Ref, false)
	}
	return out
}

// evalLocation evaluates a spec expression denoting a memory location.
func (v *Verifier) evalLocation(env *Env, e SExpr) (*Loc, types.Type) {
	switch x := e.(type) {
	case *SUnary:
		if x.Op == "*" {
			a := v.evalSpec(env, x.X)
			if a.K == KLoc {
				return a.Loc, a.Loc.T
			}
		}
	case *SSel:
		base := v.evalSpec(env, x.X)
		if base.K == KRef && strings.HasPrefix(x.Name, "$") {
			return v.ghostFieldLoc(env, base, x.Name)
		}
		if base.K == KRef {
			pt := base.T.Underlying().(*types.Pointer).Elem()
			stt := pt.Underlying().(*types.Struct)
			for i := 0; i < stt.NumFields(); i++ {
				if stt.Field(i).Name() == x.Name {
					fv := v.curRoot.fieldOf(base.A, pt, i)
					if fv.K == KLoc {
						return fv.Loc, stt.Field(i).Type()
					}
					encFail("modifies: %s is an embedded struct; list its fields or use .*", x)
				}
			}
			for i := 0; i < stt.NumFields(); i++ {
				if stt.Field(i).Embedded() && structHasField(stt.Field(i).Type(), x.Name) {
					if _, isStruct := stt.Field(i).Type().Underlying().(*types.Struct); isStruct {
						fv := v.curRoot.fieldOf(base.A, pt, i)
						ne := env.clone()
						ne.vars["$emb"] = fv
						return v.evalLocation(ne, &SSel{&SIdent{"$emb"}, x.Name})
					}
				}
			}
		}
	case *SIndex:
		base := v.evalSpec(env, x.X)
		idx := v.evalSpec(env, x.I)
		l, et := v.curRoot.elemLoc(base, idx.A)
		return l, et
	case *SIdent:
		// global variable
		if env.pkg != nil {
			if o, ok := env.pkg.Scope().Lookup(x.Name).(*types.Var); ok {
				return &Loc{Comp: "G:" + o.Pkg().Name() + "." + o.Name(), T: o.Type()}, o.Type()
			}
		}
		if val, ok := env.vars[x.Name]; ok && val.K == KLoc {
			return val.Loc, val.Loc.T
		}
	}
	return nil, nil
}

// applyContract: assert requires, havoc modifies, assume ensures.
func (fr *Frame) applyContract(ins ssa.Instruction, con *Contract, fn *ssa.Function, args, binds []Val, st *State, reach Term, what string) (Val, *State) {
	v := fr.v
	pkg := v.pkgByName(fr.fn.Pkg.Pkg, con.PkgName)
	if pkg == nil {
		pkg = fr.fn.Pkg.Pkg
	}
	vars := fr.bindContractEnv(con, fn, args, binds, pkg)
	if con.FuncSpec {
		// a funcspec may mention the names of the calling function's contract (e.g. the receiver the function value belongs to)
		if root := fr.rootFrame(); root != nil {
			for k2, v2 := range root.envBase {
				if _, shadow := vars[k2]; !shadow {
					vars[k2] = v2
				}
			}
		}
	}
	v.usedContracts[con.Key] = true
	if con.Trusted {
		v.trustedUsed[con.Key] = con.TrustWhy
	}
	// assumptions the caller's contract attaches to this call (state-independent facts instantiated here)
	if root := fr.rootFrame(); root != nil && root.con != nil && root.con.CallAssumes != nil {
		short := con.Key[strings.LastIndex(con.Key, ".")+1:]
		for _, ca := range root.con.CallAssumes[short] {
			merged := map[string]Val{}
			for k2, v2 := range root.envBase {
				merged[k2] = v2
			}
			for k2, v2 := range vars {
				merged[k2] = v2
			}
			env := &Env{fr: nil, vars: merged, cur: st, old: st, pkg: pkg}
			t := v.evalBool(env, ca.Expr)
			fr.ctx.assert(implies(reach, t), "ASSUMED at call of "+con.Key+" (listed in evidence): "+ca.Text)
			v.note(root.objPfx + ": assumed at call of " + short + ": " + ca.Text)
		}
	}
	// requires
	for j, rq := range con.Requires {
		env := &Env{fr: nil, vars: vars, cur: st, old: st, pkg: pkg}
		t := v.evalBool(env, rq.Expr)
		lab := rq.Label
		if lab == "" {
			lab = fmt.Sprint(j)
		}
		fr.addObl("requires@call:"+con.Key, lab, implies(reach, t), "precondition of "+con.Key+": "+rq.Text, fr.posOf(ins), fr.safetyProps(), false)
		fr.ctx.assert(implies(reach, t), "after requires check")
	}
	// havoc
	mods := v.evalModifies(fr, con, vars, st, pkg)
	for _, m := range mods {
		if m.all {
			// "modifies *": the callee may change anything
			fr.rootFrame().havocAll = true
			nst0 := havocState(fr.ctx, st, "call "+con.Key+" (modifies *)", func(comp string) havocSpec { return havocSpec{mode: hvAll} }, true)
			st = nst0
			mods = nil
			break
		}
	}
	byComp := map[string][]modEntry{}
	for _, m := range mods {
		byComp[m.comp] = append(byComp[m.comp], m)
		fr.touch(m.comp, m.sort)
	}
	nst := st
	if len(mods) > 0 || !con.Pure {
		nst = havocState(fr.ctx, st, "call "+con.Key, func(comp string) havocSpec {
			ms, ok := byComp[strings.TrimPrefix(comp, "N|")]
			if !ok {
				return havocSpec{mode: hvNone}
			}
			for _, m := range ms {
				if m.ref == "" {
					return havocSpec{mode: hvAll}
				}
			}
			return havocSpec{mode: hvNone} // listed rows are overwritten below
		}, !con.Pure)
		// listed (component, ref) pairs: arbitrary new value at that row, everything else unchanged
		for comp, ms := range byComp {
			all := false
			for _, m := range ms {
				if m.ref == "" {
					all = true
				}
			}
			if all {
				continue
			}
			srt := ms[0].sort
			for _, m := range ms {
				elemSort := strings.TrimSuffix(strings.TrimPrefix(srt, "(Array Int "), ")")
				fv := fr.ctx.freshConst("hv", elemSort)
				nst = fr.wrFrom(nst, st, comp, srt, m.ref, fv)
			}
		}
	}
	// results
	var res Val
	var resVals []Val
	if con.Pure && fn != nil && allScalar(args) && fn.Signature.Results().Len() == 1 && isScalarKind(kindOf(fn.Signature.Results().At(0).Type())) && len(con.Modifies) == 0 && !con.ReadsHeap {
		// deterministic function of its arguments
		rt := fn.Signature.Results().At(0).Type()
		var sorts []string
		var terms []Term
		for _, a := range args {
			ts, ss := flattenVal(a)
			terms = append(terms, ts...)
			sorts = append(sorts, ss...)
		}
		f := fr.ctx.declareFun("F!"+con.Key, sorts, scalarSort(rt))
		r := Val{K: kindOf(rt), T: rt, A: app(f, terms...)}
		if r.K == KInt {
			fr.factOnce(rangeAssump(rt, r.A))
		}
		if r.K == KStr {
			v.strFactsOnce(fr.ctx, r.A)
		}
		res = r
		resVals = []Val{r}
	} else {
		var sig *types.Signature
		if fn != nil {
			sig = fn.Signature
		}
		if sig != nil {
			res = fr.resultVal(sig.Results(), "ret")
		} else {
			// funcspec: result types from the contract header
			var vs []Val
			for _, r := range con.Results {
				vs = append(vs, fr.freshVal(v.resolveType(pkg, r.Type), "ret"))
			}
			switch len(vs) {
			case 0:
				res = Val{K: KUnit}
			case 1:
				res = vs[0]
			default:
				res = Val{K: KTuple, Fields: vs}
			}
		}
		if res.K == KTuple {
			resVals = res.Fields
		} else if res.K != KUnit {
			resVals = []Val{res}
		}
	}
	if len(con.Results) != len(resVals) {
		encFail("contract %s declares %d results, function has %d", con.Key, len(con.Results), len(resVals))
	}
	pvars := map[string]Val{}
	for k2, v2 := range vars {
		pvars[k2] = v2
	}
	for j, r := range con.Results {
		pvars[r.Name] = resVals[j]
	}
	for _, en := range con.Ensures {
		if en.Canary {
			continue
		}
		env := &Env{fr: nil, vars: pvars, cur: nst, old: st, pkg: pkg}
		t := v.evalBool(env, en.Expr)
		fr.ctx.assert(implies(reach, t), "ensures of "+con.Key+": "+en.Text)
	}
	for _, en := range con.Ensures {
		if en.Canary {
			continue
		}
		env := &Env{fr: nil, vars: pvars, cur: nst, old: st, pkg: pkg}
		nst = fr.pinUnchanged(env, en.Expr, nst)
	}
	// facts the caller's contract assumes about this call's outcome (not part of the callee's proved contract)
	if root := fr.rootFrame(); root != nil && root.con != nil && root.con.CallEnsures != nil {
		short := con.Key[strings.LastIndex(con.Key, ".")+1:]
		for _, ce := range root.con.CallEnsures[short] {
			merged := map[string]Val{}
			for k2, v2 := range root.envBase {
				merged[k2] = v2
			}
			for k2, v2 := range pvars {
				merged[k2] = v2
			}
			env := &Env{fr: nil, vars: merged, cur: nst, old: st, pkg: pkg}
			t := v.evalBool(env, ce.Expr)
			fr.ctx.assert(implies(reach, t), "ASSUMED after call of "+con.Key+" (listed in evidence): "+ce.Text)
			v.note(root.objPfx + ": assumed after call of " + short + ": " + ce.Text)
		}
	}
	return res, nst
}

// pinUnchanged: for every top-level conjunct "A == old(A)" that has just been assumed (A a scalar field of a
// pre-existing object), the pre-state term of A is written over the havocked value. The state denotes the same
// heap (the equality is assumed), but later reads of A are syntactically the old value, so they are recognised
// as entry-state values and facts stated about them apply without a detour through the equality.
func (fr *Frame) pinUnchanged(env *Env, e SExpr, st *State) *State {
	b, ok := e.(*SBinary)
	if !ok {
		return st
	}
	if b.Op == "&&" {
		st = fr.pinUnchanged(env, b.X, st)
		env2 := env.clone()
		env2.cur = st
		return fr.pinUnchanged(env2, b.Y, st)
	}
	if b.Op != "==" {
		return st
	}
	isOldOf := func(o, a SExpr) bool {
		c, ok := o.(*SCall)
		if !ok || len(c.Args) != 1 {
			return false
		}
		id, ok := c.Fn.(*SIdent)
		return ok && id.Name == "old" && c.Args[0].String() == a.String()
	}
	var a SExpr
	switch {
	case isOldOf(b.Y, b.X):
		a = b.X
	case isOldOf(b.X, b.Y):
		a = b.Y
	default:
		return st
	}
	sel, ok := a.(*SSel)
	if !ok || strings.HasPrefix(sel.Name, "$") || env.old == nil {
		return st
	}
	var out *State
	func() {
		defer func() {
			if r := recover(); r != nil {
				out = nil
			}
		}()
		ne := env.clone()
		ne.cur = st
		l, t := fr.v.evalLocation(ne, a)
		if l == nil || l.isElem() || l.isGlobal() {
			return
		}
		switch kindOf(t) {
		case KInt, KBool, KStr, KRef:
		default:
			return
		}
		if fr.v.classify(l.Ref) != rcOld {
			return
		}
		oe := env.clone()
		oe.cur = env.old
		oe.at = nil
		ov := fr.v.evalSpec(oe, a)
		out = fr.storeLoc(st, l, t, ov)
	}()
	if out == nil {
		return st
	}
	return out
}

func isScalarKind(k Kind) bool {
	return k == KInt || k == KBool || k == KStr
}

func allScalar(args []Val) bool {
	for _, a := range args {
		switch a.K {
		case KInt, KBool, KStr, KRef:
		default:
			return false
		}
	}
	return true
}

// inlineCall encodes the callee body in place.
func (fr *Frame) inlineCall(ins ssa.Instruction, fn *ssa.Function, con *Contract, args, binds []Val, st *State, reach Term) (Val, *State) {
	if len(fn.Blocks) == 0 {
		return fr.unknownCallFn(ins, fn, args, st, reach)
	}
	key := funcKey(fn)
	for _, s := range fr.inlineStack {
		if s == key {
			encFail("recursive inlining of %s", key)
		}
	}
	if fr.depth > 12 {
		encFail("inlining too deep at %s", key)
	}
	sub := fr.v.newFrame(fn, con, false)
	sub.depth = fr.depth + 1
	sub.objPfx = fr.objPfx
	sub.counters = fr.counters
	sub.props = fr.props
	sub.params = args
	sub.free = binds
	sub.entrySt = st
	sub.entryR = reach
	sub.oldSt = st
	sub.inlineStack = append(append([]string{}, fr.inlineStack...), key)
	sub.nonNil = map[Term]*ssa.BasicBlock{}
	fr.v.parentOf[sub] = fr
	if con != nil {
		sub.envBase = sub.bindContractEnv(con, fn, args, binds, fn.Pkg.Pkg)
	}
	fr.v.inlined[key] = true
	sub.run()
	if len(sub.rets) == 0 {
		// callee never returns (always panics): the rest of the block is unreachable
		return fr.resultVal(fn.Signature.Results(), "ret"), havocState(fr.ctx, st, "noreturn", func(string) havocSpec { return havocSpec{mode: hvNone} }, false).withUnreachable(fr)
	}
	var mins []mergeIn
	var conds []Term
	for _, r := range sub.rets {
		mins = append(mins, mergeIn{r.cond, r.st})
		conds = append(conds, r.cond)
	}
	nst := mergeStates(fr.ctx, mins)
	// after the call, execution continues only if some return was reached
	retReach := or(conds...)
	fr.ctx.assert(implies(reach, retReach), "inlined call returns (panics inside are separate obligations)")
	nres := fn.Signature.Results().Len()
	var res Val
	switch nres {
	case 0:
		res = Val{K: KUnit}
	default:
		var outs []Val
		for j := 0; j < nres; j++ {
			var cvs []condVal
			for _, r := range sub.rets {
				cvs = append(cvs, condVal{r.cond, r.results[j]})
			}
			outs = append(outs, fr.mergeVals(cvs, fn.Signature.Results().At(j).Type(), "ret"))
		}
		if nres == 1 {
			res = outs[0]
		} else {
			res = Val{K: KTuple, T: fn.Signature.Results(), Fields: outs}
		}
	}
	return res, nst
}

func (s *State) withUnreachable(fr *Frame) *State { return s }

// ret handles a return instruction.
func (fr *Frame) ret(ins ssa.Instruction, st *State, reach Term, results []Val) {
	if !fr.top {
		fr.rets = append(fr.rets, retInfo{reach, st, results})
		return
	}
	fr.rets = append(fr.rets, retInfo{reach, st, results})
	con := fr.con
	if con == nil {
		return
	}
	v := fr.v
	if len(con.Results) != len(results) {
		encFail("contract %s declares %d results, function returns %d", con.Key, len(con.Results), len(results))
	}
	nret := len(fr.rets) - 1
	for j, en := range con.Ensures {
		env := fr.specEnv(st, fr.entrySt)
		for k, r := range con.Results {
			env.vars[r.Name] = results[k]
		}
		env.fr = fr
		t := v.evalBool(env, en.Expr)
		lab := en.Label
		if lab == "" {
			lab = fmt.Sprint(j)
		}
		if en.Canary {
			fr.canaryGoals[j] = append(fr.canaryGoals[j], implies(reach, t))
			continue
		}
		lab = fmt.Sprintf("%s@ret%d", lab, nret)
		if parts := fr.reachParts[fr.cur]; len(parts) > 2 && len(parts) <= 12 && len(t) > 400 {
			// a return block reached by many paths: one obligation per incoming path (smaller case splits)
			for k, pc := range parts {
				fr.addObl("ensures", fmt.Sprintf("%s;path%d", lab, k), implies(pc, t), en.Text, fmt.Sprintf("%s:%d", shortPath(en.File), en.Line), fr.clauseProps(en), en.Canary)
			}
			continue
		}
		fr.addObl("ensures", lab, implies(reach, t), en.Text, fmt.Sprintf("%s:%d", shortPath(en.File), en.Line), fr.clauseProps(en), en.Canary)
	}
	// frame
	if fr.modifiesAll("*") {
		return // "modifies *": no frame to establish
	}
	if fr.havocAll {
		fr.addObl("frame", fmt.Sprintf("unbounded@ret%d", nret), not(reach), "function calls code with unbounded effects; frame cannot be established", fr.posOf(ins), fr.props, false)
		return
	}
	comps := make([]string, 0, len(fr.touched))
	for c := range fr.touched {
		comps = append(comps, c)
	}
	sortStrings(comps)
	for _, comp := range comps {
		if strings.HasPrefix(comp, "N|") {
			continue // objects allocated by this function are not constrained by the frame
		}
		t := fr.frameTermFor(comp, fr.touched[comp], st)
		if t == "" {
			continue
		}
		fr.addObl("frame", fmt.Sprintf("%s@ret%d", comp, nret), implies(reach, t), "only locations listed in modifies change: "+comp, fr.posOf(ins), fr.props, false)
	}
}

// modifiesAll / modifiedRefs: the root frame's modifies clause evaluated at entry.
func (root *Frame) modEntries() []modEntry {
	if root.modCache != nil {
		return root.modCache
	}
	if root.con == nil {
		return nil
	}
	root.modCache = root.v.evalModifies(root, root.con, root.envBase, root.entrySt, root.fn.Pkg.Pkg)
	if root.modCache == nil {
		root.modCache = []modEntry{}
	}
	return root.modCache
}

func (root *Frame) modifiesAll(comp string) bool {
	for _, m := range root.modEntries() {
		if m.all {
			return true
		}
		if m.comp == comp && m.ref == "" {
			return true
		}
	}
	return false
}

func (root *Frame) modifiedRefs(comp string) []Term {
	var out []Term
	for _, m := range root.modEntries() {
		if m.comp == comp && m.ref != "" {
			out = append(out, m.ref)
		}
	}
	return out
}

// runDeferred executes deferred calls (in reverse order) at a return.
func (fr *Frame) runDeferred(st *State, reach Term) *State {
	for k := len(fr.deferred) - 1; k >= 0; k-- {
		d := fr.deferred[k]
		if !d.Block().Dominates(fr.cur) {
			if !blockReaches(d.Block(), fr.cur) {
				continue // the defer statement is not executed on any path to this return
			}
			encFail("conditional defer not supported")
		}
		_, st = fr.doCall(d, d.Common(), st, reach)
	}
	return st
}

// ---------- builtins ----------

func (fr *Frame) builtin(ins ssa.Instruction, b *ssa.Builtin, cc *ssa.CallCommon, st *State, reach Term) (Val, *State) {
	var args []Val
	for _, a := range cc.Args {
		args = append(args, fr.value(a))
	}
	intT := types.Typ[types.Int]
	switch b.Name() {
	case "len":
		switch args[0].K {
		case KMap:
			return Val{K: KInt, T: intT, A: fr.mapCard(st, args[0])}, st
		}
		return Val{K: KInt, T: intT, A: fr.lenOf(args[0])}, st
	case "cap":
		if args[0].K == KSlice {
			return Val{K: KInt, T: intT, A: args[0].Cap}, st
		}
		return Val{K: KInt, T: intT, A: fr.lenOf(args[0])}, st
	case "min", "max":
		r := args[0]
		for _, a := range args[1:] {
			if b.Name() == "min" {
				r = Val{K: KInt, T: r.T, A: ite(le(r.A, a.A), r.A, a.A)}
			} else {
				r = Val{K: KInt, T: r.T, A: ite(le(r.A, a.A), a.A, r.A)}
			}
		}
		return r, st
	case "copy":
		return fr.copyBuiltin(ins, args[0], args[1], st, reach)
	case "append":
		return fr.appendBuiltin(ins, args[0], args[1], st, reach)
	case "delete":
		return Val{K: KUnit}, fr.mapDelete(st, args[0], args[1])
	case "print", "println":
		return Val{K: KUnit}, st
	case "clear":
		encFail("builtin clear unsupported")
	}
	encFail("unsupported builtin %s", b.Name())
	return Val{}, nil
}

// rangeCopy describes: dst[dOff+k] = src[sOff+k] for 0 <= k < n, other entries of dst unchanged.
func (fr *Frame) copyBuiltin(ins ssa.Instruction, dst, src Val, st *State, reach Term) (Val, *State) {
	intT := types.Typ[types.Int]
	if src.K == KStr {
		// copy(dst []byte, src string)
		n := fr.nameTerm(ite(le(dst.Len, app("slen", src.A)), dst.Len, app("slen", src.A)), "ncopy", "Int")
		comp := "E:uint8"
		srt := arr2Sort("Int")
		drow := fr.rd(st, comp, srt, dst.A)
		na := fr.ctx.freshConst("copied", arrSort("Int"))
		fr.ctx.assert(fmt.Sprintf("(forall ((i! Int)) (! (= (select %s i!) (ite (and (<= %s i!) (< i! (+ %s %s))) (sbyte %s (- i! %s)) (select %s i!))) :pattern ((select %s i!))))",
			na, dst.Off, dst.Off, n, src.A, dst.Off, drow, na), "copy from string")
		return Val{K: KInt, T: intT, A: n}, fr.wr(st, comp, srt, dst.A, na)
	}
	n := fr.nameTerm(ite(le(dst.Len, src.Len), dst.Len, src.Len), "ncopy", "Int")
	et := dst.T.Underlying().(*types.Slice).Elem()
	for _, sc := range fr.v.leafComps(et) {
		comp := "E:" + typeName(et) + sc.suffix
		srt := arr2Sort(sc.sort)
		drow := fr.rd(st, comp, srt, dst.A)
		srow := fr.rd(st, comp, srt, src.A)
		na := fr.ctx.freshConst("copied", arrSort(sc.sort))
		// the source element is read in the form every other read takes (shift view for non-zero offsets), so that
		// quantified facts about the source match it
		var srcAt Term
		if src.Off != "" && src.Off != "0" {
			srcAt = sel(fr.v.shift(fr.ctx, srow, src.Off, sc.sort), sub("i!", dst.Off))
		} else {
			srcAt = sel(srow, sub("i!", dst.Off))
		}
		fr.ctx.assert(fmt.Sprintf("(forall ((i! Int)) (! (= (select %s i!) (ite (and (<= %s i!) (< i! (+ %s %s))) %s (select %s i!))) :pattern ((select %s i!))))",
			na, dst.Off, dst.Off, n, srcAt, drow, na), "copy")
		st = fr.wr(st, comp, srt, dst.A, na)
	}
	return Val{K: KInt, T: intT, A: n}, st
}

func (fr *Frame) appendBuiltin(ins ssa.Instruction, s, t Val, st *State, reach Term) (Val, *State) {
	c := fr.ctx
	var n Term
	if t.K == KStr {
		n = app("slen", t.A)
	} else {
		n = t.Len
	}
	if n == "0" {
		return s, st
	}
	et := s.T.Underlying().(*types.Slice).Elem()
	inplace := c.freshConst("inplace", "Bool")
	c.assert(eq(inplace, and(not(eq(s.A, "0")), le(add(s.Len, n), s.Cap))), "append in place?")
	newRef := st.nxt
	nst := st.withNxt(fr.bumpNxt(st.nxt))
	fr.v.knownNonNil[newRef] = true
	res := Val{K: KSlice, T: s.T}
	res.A = c.freshConst("app.ref", "Int")
	res.Off = c.freshConst("app.off", "Int")
	res.Len = c.freshConst("app.len", "Int")
	res.Cap = c.freshConst("app.cap", "Int")
	c.assert(eq(res.Len, add(s.Len, n)), "append len")
	c.assert(ite(inplace, and(eq(res.A, s.A), eq(res.Off, s.Off), eq(res.Cap, s.Cap)),
		and(eq(res.A, newRef), eq(res.Off, "0"), le(res.Len, res.Cap), le(res.Cap, maxLenTerm))), "append result")
	fr.addObl("append", "", implies(reach, le(add(s.Len, n), maxLenTerm)), "append within addressable memory: "+ins.String(), fr.posOf(ins), fr.safetyProps(), false)
	for _, sc := range fr.v.leafComps(et) {
		comp := "E:" + typeName(et) + sc.suffix
		srt := arr2Sort(sc.sort)
		na := c.freshConst("appended", arrSort(sc.sort))
		var srcAt func(k Term) Term
		if t.K == KStr {
			srcAt = func(k Term) Term { return app("sbyte", t.A, k) }
		} else {
			srow := fr.rd(st, comp, srt, t.A)
			srcAt = func(k Term) Term { return sel(srow, add(t.Off, k)) }
		}
		oldArr := fr.rd(st, comp, srt, s.A)
		inPlaceVal := ite(and(le(add(s.Off, s.Len), "i!"), lt("i!", add(add(s.Off, s.Len), n))), srcAt(sub("i!", add(s.Off, s.Len))), sel(oldArr, "i!"))
		freshVal := ite(and(le("0", "i!"), lt("i!", s.Len)), sel(oldArr, add(s.Off, "i!")),
			ite(and(le(s.Len, "i!"), lt("i!", add(s.Len, n))), srcAt(sub("i!", s.Len)), zeroTermOf(fr.v, c, sc)))
		c.assert(fmt.Sprintf("(forall ((i! Int)) (! (= (select %s i!) %s) :pattern ((select %s i!))))", na, ite(inplace, inPlaceVal, freshVal), na), "append contents")
		// in place: row of s's backing array; otherwise: row of the fresh array
		nst = fr.wrFrom(nst, st, comp, srt, s.A, ite(inplace, na, oldArr))
		nst = fr.wrFrom(nst, nst, comp, srt, newRef, ite(inplace, fr.rd(nst, comp, srt, newRef), na))
	}
	// Lemmas (logical consequences of the exact model above, stated in the form later reads will take):
	// the old elements are kept and the appended ones follow.
	{
		c.fresh++
		iv := sym(fmt.Sprintf("i!q%d", c.fresh))
		lOld, etOld := fr.elemLoc(s, iv)
		lNew, _ := fr.elemLoc(res, iv)
		for _, sc := range fr.v.leafComps(etOld) {
			before := fr.readLeaf(st, lOld, sc.suffix, sc.sort)
			after := fr.readLeaf(nst, lNew, sc.suffix, sc.sort)
			c.assert(fmt.Sprintf("(forall ((%s Int)) (! (=> (and (<= 0 %s) (< %s %s)) (= %s %s)) :pattern (%s) :pattern (%s)))", iv, iv, iv, s.Len, after, before, after, before), "append keeps the old elements (lemma)")
		}
		if _, ok := constOf(n); !ok && t.K == KSlice {
			c.fresh++
			kv := sym(fmt.Sprintf("k!q%d", c.fresh))
			lSrc, _ := fr.elemLoc(t, kv)
			lDst, _ := fr.elemLoc(res, add(s.Len, kv))
			var eqs []Term
			var pats []Term
			for _, sc := range fr.v.leafComps(etOld) {
				src := fr.readLeaf(st, lSrc, sc.suffix, sc.sort)
				eqs = append(eqs, eq(fr.readLeaf(nst, lDst, sc.suffix, sc.sort), src))
				pats = append(pats, src)
			}
			c.assert(fmt.Sprintf("(forall ((%s Int)) (! (=> (and (<= 0 %s) (< %s %s)) %s) :pattern (%s)))", kv, kv, kv, n, and(eqs...), pats[0]), "append places the new elements (lemma)")
			// the same fact indexed by the position in the result
			c.fresh++
			jv := sym(fmt.Sprintf("j!q%d", c.fresh))
			lSrc2, _ := fr.elemLoc(t, sub(jv, s.Len))
			lDst2, _ := fr.elemLoc(res, jv)
			var eqs2 []Term
			var pats2 []Term
			for _, sc := range fr.v.leafComps(etOld) {
				dst := fr.readLeaf(nst, lDst2, sc.suffix, sc.sort)
				eqs2 = append(eqs2, eq(dst, fr.readLeaf(st, lSrc2, sc.suffix, sc.sort)))
				pats2 = append(pats2, dst)
			}
			c.assert(fmt.Sprintf("(forall ((%s Int)) (! (=> (and (<= %s %s) (< %s (+ %s %s))) %s) :pattern (%s)))", jv, s.Len, jv, jv, s.Len, n, and(eqs2...), pats2[0]), "append places the new elements (lemma, by result index)")
		}
		if nc, ok := constOf(n); ok && nc.IsInt64() && nc.Int64() <= 4 && t.K != KStr {
			for k := int64(0); k < nc.Int64(); k++ {
				lSrc, _ := fr.elemLoc(t, num(k))
				lDst, _ := fr.elemLoc(res, add(s.Len, num(k)))
				for _, sc := range fr.v.leafComps(etOld) {
					c.assert(eq(fr.readLeaf(nst, lDst, sc.suffix, sc.sort), fr.readLeaf(st, lSrc, sc.suffix, sc.sort)), "append places the new element (lemma)")
				}
			}
		}
	}
	return res, nst
}

func sortStrings(s []string) {
	for i := 1; i < len(s); i++ {
		for j := i; j > 0 && s[j] < s[j-1]; j-- {
			s[j], s[j-1] = s[j-1], s[j]
		}
	}
}

func blockReaches(from, to *ssa.BasicBlock) bool {
	seen := map[*ssa.BasicBlock]bool{}
	stack := []*ssa.BasicBlock{from}
	for len(stack) > 0 {
		b := stack[len(stack)-1]
		stack = stack[:len(stack)-1]
		if b == to {
			return true
		}
		if seen[b] {
			continue
		}
		seen[b] = true
		stack = append(stack, b.Succs...)
	}
	return false
}

// wrFrom writes a row into state dst (rows are read relative to dst); kept separate for clarity at call sites.
func (fr *Frame) wrFrom(dst, _ *State, comp, srt string, ref Term, row Term) *State {
	return fr.wr(dst, comp, srt, ref, row)
}
