package main

// Replay of solver models against the real code (filled in later).

func (v *Verifier) replayModel(o *Obligation) map[string]interface{} {
	return nil
}
