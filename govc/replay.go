package main

// Replay of solver models against the real code.
//
// A refuted obligation comes with a model of the function's entry state: values of the parameters and of the access
// paths the contract mentions (lengths and leading elements of slices, fields reached through pointers). From it
// a Go test is generated that rebuilds that state, calls the real function inside its package (go test -overlay,
// nothing is written into /repo) and evaluates the violated clause translated to Go. "confirmed" means the real
// code panicked (safety obligations) or violated the clause on that input.

import (
	"encoding/json"
	"fmt"
	"os"
	"os/exec"
	"path/filepath"
	"sort"
	"strconv"
	"strings"
	"time"

	"golang.org/x/tools/go/ssa"
)

type goTr struct {
	v        *Verifier
	con      *Contract
	results  map[string]string // contract result name -> Go variable
	bound    map[string]bool
	olds     [][2]string       // snapshot (variable, source expression)
	oldNames map[string]string // path text -> snapshot variable
	inOld    bool
	pkg      string
	failed   string
	maxLenV  string
}

func (g *goTr) fail(msg string) string {
	if g.failed == "" {
		g.failed = msg
	}
	return "false"
}

func (g *goTr) expr(e SExpr) string {
	switch x := e.(type) {
	case *SInt:
		return x.V
	case *SBool:
		return fmt.Sprint(x.V)
	case *SStr:
		return strconv.Quote(x.V)
	case *SNil:
		return "nil"
	case *SIdent:
		if g.bound[x.Name] {
			return x.Name
		}
		if r, ok := g.results[x.Name]; ok {
			return r
		}
		if g.inOld && g.isParamRooted(e) {
			return g.snapshot(e)
		}
		return x.Name
	case *SLet:
		return g.fail("let not supported in replay")
	case *SUnary:
		if x.Op == "*" && g.inOld && g.isClosedPath(e) {
			return g.snapshot(e)
		}
		return "(" + x.Op + g.expr(x.X) + ")"
	case *SSel:
		if id, ok := x.X.(*SIdent); ok && !g.bound[id.Name] && !g.isParam(id.Name) && g.results[id.Name] == "" {
			return id.Name + "." + x.Name // package-qualified
		}
		if g.inOld && g.isClosedPath(e) {
			return g.snapshot(e)
		}
		// ghost view of a bytes.Buffer: the runes written so far and their number
		if x.Name == "$out" {
			return "[]rune((" + g.expr(x.X) + ").String())"
		}
		if x.Name == "$n" {
			return "len([]rune((" + g.expr(x.X) + ").String()))"
		}
		return g.expr(x.X) + "." + x.Name
	case *SIndex:
		return g.expr(x.X) + "[" + g.expr(x.I) + "]"
	case *SSlice:
		lo, hi := "", ""
		if x.Lo != nil {
			lo = g.expr(x.Lo)
		}
		if x.Hi != nil {
			hi = g.expr(x.Hi)
		}
		return g.expr(x.X) + "[" + lo + ":" + hi + "]"
	case *SBinary:
		a, b := g.expr(x.X), g.expr(x.Y)
		switch x.Op {
		case "==>":
			return "(!(" + a + ") || (" + b + "))"
		case "<==>":
			return "((" + a + ") == (" + b + "))"
		case "==":
			return "govcEq(" + a + ", " + b + ")"
		case "!=":
			return "(!govcEq(" + a + ", " + b + "))"
		case "<":
			return "(govcCmp(" + a + ", " + b + ") < 0)"
		case "<=":
			return "(govcCmp(" + a + ", " + b + ") <= 0)"
		case ">":
			return "(govcCmp(" + a + ", " + b + ") > 0)"
		case ">=":
			return "(govcCmp(" + a + ", " + b + ") >= 0)"
		}
		return "(" + a + " " + x.Op + " " + b + ")"
	case *SCall:
		return g.call(x)
	case *SQuant:
		return g.quant(x)
	}
	return g.fail(fmt.Sprintf("cannot translate %s", e))
}

func (g *goTr) isParam(name string) bool {
	if g.con.Recv != nil && g.con.Recv.Name == name {
		return true
	}
	for _, p := range g.con.Params {
		if p.Name == name {
			return true
		}
	}
	return false
}

func (g *goTr) isParamRooted(e SExpr) bool {
	for {
		switch x := e.(type) {
		case *SIdent:
			return g.isParam(x.Name)
		case *SSel:
			e = x.X
		case *SUnary:
			e = x.X
		default:
			return false
		}
	}
}

func (g *goTr) isClosedPath(e SExpr) bool {
	for {
		switch x := e.(type) {
		case *SIdent:
			return g.isParam(x.Name) && !g.bound[x.Name]
		case *SSel:
			e = x.X
		case *SUnary:
			if x.Op != "*" {
				return false
			}
			e = x.X
		default:
			return false
		}
	}
}

// snapshot returns a variable holding the pre-call value of a closed access path.
func (g *goTr) snapshot(e SExpr) string {
	key := e.String()
	if n, ok := g.oldNames[key]; ok {
		return n
	}
	n := fmt.Sprintf("old%d", len(g.oldNames))
	g.oldNames[key] = n
	was := g.inOld
	g.inOld = false
	src := g.expr(e)
	g.inOld = was
	g.olds = append(g.olds, [2]string{n, src})
	return n
}

func (g *goTr) call(x *SCall) string {
	if sel, ok := x.Fn.(*SSel); ok {
		if id, ok := sel.X.(*SIdent); ok {
			if sf, ok := g.v.contracts.Specs[id.Name+"."+sel.Name]; ok {
				return g.specFunc(sf, x.Args)
			}
			var as []string
			for _, a := range x.Args {
				as = append(as, g.expr(a))
			}
			return id.Name + "." + sel.Name + "(" + strings.Join(as, ", ") + ")"
		}
	}
	id, ok := x.Fn.(*SIdent)
	if !ok {
		return g.fail("unsupported call")
	}
	switch id.Name {
	case "old":
		was := g.inOld
		g.inOld = true
		r := g.expr(x.Args[0])
		g.inOld = was
		return r
	case "len", "cap", "min", "max", "int", "rune", "byte", "uint", "int32", "int64", "uint8", "uint32", "uint64", "uint16", "int16", "int8":
		var as []string
		for _, a := range x.Args {
			as = append(as, g.expr(a))
		}
		return id.Name + "(" + strings.Join(as, ", ") + ")"
	case "ite":
		return "govcIte(" + g.expr(x.Args[0]) + ", " + g.expr(x.Args[1]) + ", " + g.expr(x.Args[2]) + ")"
	case "fresh", "allocated":
		return "true"
	}
	var sf *SpecFunc
	if s2, ok := g.v.contracts.Specs[g.pkg+"."+id.Name]; ok {
		sf = s2
	} else {
		for k, s3 := range g.v.contracts.Specs {
			if strings.HasSuffix(k, "."+id.Name) {
				sf = s3
			}
		}
	}
	if sf != nil {
		return g.specFunc(sf, x.Args)
	}
	// a function of the package (pure helper) or a conversion
	var as []string
	for _, a := range x.Args {
		as = append(as, g.expr(a))
	}
	return id.Name + "(" + strings.Join(as, ", ") + ")"
}

func (g *goTr) specFunc(sf *SpecFunc, args []SExpr) string {
	if sf.Body == nil {
		return g.fail("ghost function " + sf.Name + " is not executable")
	}
	if len(args) != len(sf.Params) {
		return g.fail("arity")
	}
	sub := map[string]SExpr{}
	for i, p := range sf.Params {
		sub[p.Name] = args[i]
	}
	return g.expr(substSpec(sf.Body, sub))
}

func (g *goTr) quant(x *SQuant) string {
	// bounded enumeration of every bound variable over [-4, maxLen+4] (runes: the same window plus ASCII)
	var sb strings.Builder
	sb.WriteString("func() bool {\n")
	nb := map[string]bool{}
	for k := range g.bound {
		nb[k] = true
	}
	old := g.bound
	g.bound = nb
	depth := 0
	for _, b := range x.Vars {
		g.bound[b.Name] = true
		t := b.Type
		if strings.HasPrefix(t, "[]") || strings.HasPrefix(t, "*") {
			g.bound = old
			return g.fail("quantifier over " + t + " is not executable")
		}
		sb.WriteString(fmt.Sprintf("for %s := %s(-4); int(%s) <= govcMaxLen+4; %s++ {\n", b.Name, t, b.Name, b.Name))
		depth++
	}
	body := g.expr(x.Body)
	if x.Forall {
		sb.WriteString("if !govcTry(func() bool { return " + body + " }) { return false }\n")
	} else {
		sb.WriteString("if govcTry(func() bool { return " + body + " }) { return true }\n")
	}
	for i := 0; i < depth; i++ {
		sb.WriteString("}\n")
	}
	if x.Forall {
		sb.WriteString("return true\n}()")
	} else {
		sb.WriteString("return false\n}()")
	}
	g.bound = old
	return sb.String()
}

type pathInit struct {
	path   string
	role   string
	gotype string
	val    string
	elems  map[int]string
	length int
	ref    string
}

func pathDepth(p string) int {
	return strings.Count(p, ".") + strings.Count(p, "*") + strings.Count(p, "[")
}

func modelInt(s string) (int64, bool) {
	s = strings.TrimSpace(s)
	n, err := strconv.ParseInt(s, 10, 64)
	if err != nil {
		return 0, false
	}
	return n, true
}

// genReplayTest builds the Go test source; ok=false with a reason when the obligation cannot be replayed.
func (v *Verifier) genReplayTest(o *Obligation, con *Contract, fn *ssa.Function) (src string, pkgDir string, reason string) {
	if o.Model == nil {
		return "", "", "no model"
	}
	pkgPath := fn.Pkg.Pkg.Path()
	pkgName := fn.Pkg.Pkg.Name()
	rel := strings.TrimPrefix(strings.TrimPrefix(pkgPath, "github.com/dlclark/regexp2/v2"), "/")
	if rel == "" {
		rel = "."
	}
	// collect path initialisers
	inits := map[string]*pathInit{}
	get := func(p string) *pathInit {
		if pi, ok := inits[p]; ok {
			return pi
		}
		pi := &pathInit{path: p, elems: map[int]string{}, length: -1}
		inits[p] = pi
		return pi
	}
	for _, mv := range o.ModelVars {
		val, ok := o.Model[mv.Name]
		if !ok || mv.Path == "" || strings.Contains(mv.Path, "$") {
			continue // (ghost fields cannot be initialised: a fresh buffer is empty)
		}
		pi := get(mv.Path)
		pi.gotype = mv.GoType
		switch mv.Role {
		case "scalar", "ptr":
			pi.role = mv.Role
			pi.val = val
		case "len":
			pi.role = "slice"
			if n, ok := modelInt(val); ok {
				pi.length = int(n)
			}
		case "sliceref":
			pi.ref = val
		case "elem":
			pi.elems[mv.Index] = val
		case "strlen":
			pi.role = "string"
			if n, ok := modelInt(val); ok {
				pi.length = int(n)
			}
		case "strbyte":
			pi.elems[mv.Index] = val
		}
	}
	var paths []*pathInit
	for _, pi := range inits {
		if pi.role != "" {
			paths = append(paths, pi)
		}
	}
	sort.Slice(paths, func(i, j int) bool {
		di, dj := pathDepth(paths[i].path), pathDepth(paths[j].path)
		if di != dj {
			return di < dj
		}
		return paths[i].path < paths[j].path
	})
	var body strings.Builder
	// parameter declarations
	declared := map[string]bool{}
	decl := func(p *ParamDecl) {
		if p == nil || p.Name == "_" || declared[p.Name] {
			return
		}
		declared[p.Name] = true
		t := p.Type
		if strings.HasPrefix(t, "...") {
			t = "[]" + t[3:]
		}
		body.WriteString(fmt.Sprintf("\tvar %s %s\n\t_ = %s\n", p.Name, t, p.Name))
	}
	decl(con.Recv)
	for i := range con.Params {
		decl(&con.Params[i])
	}
	ptrByVal := map[string]string{}
	tooBig := false
	for _, pi := range paths {
		lhs := pi.path
		root := lhs
		if i := strings.IndexAny(root, ".[*("); i >= 0 {
			root = strings.Trim(root[:i], "(*")
			if root == "" {
				root = strings.Trim(strings.TrimLeft(lhs, "(*"), ")")
				if j := strings.IndexAny(root, ".[)"); j >= 0 {
					root = root[:j]
				}
			}
		}
		if !declared[root] {
			continue // package-level variables and constants keep the values the program gives them
		}
		switch pi.role {
		case "ptr":
			if pi.val == "0" || pi.val == "" {
				continue
			}
			if !strings.HasPrefix(pi.gotype, "*") {
				continue // interface / func / map values cannot be rebuilt from the model
			}
			if n, ok := modelInt(pi.val); !ok || n >= 1<<48 {
				continue // embedded struct (addressed by a derived reference): part of its parent object
			}
			key := pi.gotype + "#" + pi.val
			if prev, ok := ptrByVal[key]; ok {
				body.WriteString(fmt.Sprintf("\tgovcTryDo(func() { %s = %s })\n", lhs, prev))
				continue
			}
			ptrByVal[key] = lhs
			body.WriteString(fmt.Sprintf("\tgovcTryDo(func() { %s = new(%s) })\n", lhs, strings.TrimPrefix(pi.gotype, "*")))
		case "scalar":
			if pi.gotype == "bool" {
				body.WriteString(fmt.Sprintf("\tgovcTryDo(func() { %s = %s })\n", lhs, pi.val))
			} else if _, ok := modelInt(pi.val); ok && pi.gotype != "" {
				body.WriteString(fmt.Sprintf("\tgovcTryDo(func() { %s = %s(%s) })\n", lhs, pi.gotype, pi.val))
			}
		case "slice":
			n := pi.length
			if n < 0 {
				continue
			}
			if n == 0 && (pi.ref == "0" || pi.ref == "") {
				continue // nil slice
			}
			if n > 1<<16 {
				tooBig = true
				n = 1 << 16
			}
			body.WriteString(fmt.Sprintf("\tgovcTryDo(func() { %s = make(%s, %d) })\n", lhs, pi.gotype, n))
			et := strings.TrimPrefix(pi.gotype, "[]")
			var idxs []int
			for i := range pi.elems {
				idxs = append(idxs, i)
			}
			sort.Ints(idxs)
			for _, i := range idxs {
				if i >= n {
					continue
				}
				if et == "bool" {
					body.WriteString(fmt.Sprintf("\tgovcTryDo(func() { %s[%d] = %s })\n", lhs, i, pi.elems[i]))
				} else if _, ok := modelInt(pi.elems[i]); ok {
					body.WriteString(fmt.Sprintf("\tgovcTryDo(func() { %s[%d] = %s(%s) })\n", lhs, i, et, pi.elems[i]))
				}
			}
		case "string":
			n := pi.length
			if n < 0 {
				continue
			}
			if n > 1<<16 {
				tooBig = true
				n = 1 << 16
			}
			bs := make([]string, n)
			for i := 0; i < n; i++ {
				bs[i] = "'a'"
				if e, ok := pi.elems[i]; ok {
					if bv, ok := modelInt(e); ok && bv >= 0 && bv < 256 {
						bs[i] = fmt.Sprint(bv)
					}
				}
			}
			body.WriteString(fmt.Sprintf("\tgovcTryDo(func() { %s = string([]byte{%s}) })\n", lhs, strings.Join(bs, ", ")))
		}
	}
	// max slice length for bounded quantifiers
	body.WriteString("\tgovcMaxLen = 0\n")
	for _, pi := range paths {
		if (pi.role == "slice" || pi.role == "string") && pi.length > 0 {
			n := pi.length
			if n > 512 {
				n = 512
			}
			body.WriteString(fmt.Sprintf("\tif %d > govcMaxLen { govcMaxLen = %d }\n", n, n))
		}
	}
	// translate requires (must hold on the rebuilt input) and the violated clause
	g := &goTr{v: v, con: con, results: map[string]string{}, bound: map[string]bool{}, oldNames: map[string]string{}, pkg: pkgName}
	for i, r := range con.Results {
		g.results[r.Name] = fmt.Sprintf("res%d", i)
	}
	var reqs []string
	for _, rq := range con.Requires {
		gg := &goTr{v: v, con: con, results: map[string]string{}, bound: map[string]bool{}, oldNames: map[string]string{}, pkg: pkgName}
		t := gg.expr(rq.Expr)
		if gg.failed == "" {
			reqs = append(reqs, "govcTry(func() bool { return "+t+" })")
		}
	}
	clauseGo := ""
	clauseNote := ""
	if o.Kind == "ensures" {
		// find the clause by its text
		for _, en := range con.Ensures {
			if en.Text == o.Text {
				t := g.expr(en.Expr)
				if g.failed == "" {
					clauseGo = t
				} else {
					clauseNote = "clause not executable: " + g.failed
				}
			}
		}
	}
	if len(reqs) > 0 {
		body.WriteString("\tif !(" + strings.Join(reqs, " && ") + ") {\n\t\tfmt.Println(\"GOVC-REPLAY: precondition-not-met\")\n\t\treturn\n\t}\n")
	}
	// snapshots for old()
	for _, st := range g.olds {
		body.WriteString(fmt.Sprintf("\t%s := govcCopy(%s)\n\t_ = %s\n", st[0], st[1], st[0]))
	}
	// the call
	var args []string
	for _, p := range con.Params {
		if strings.HasPrefix(p.Type, "...") {
			args = append(args, p.Name+"...")
		} else {
			args = append(args, p.Name)
		}
	}
	callee := fn.Name()
	if con.Recv != nil {
		callee = con.Recv.Name + "." + fn.Name()
	}
	var resNames []string
	for i := range con.Results {
		resNames = append(resNames, fmt.Sprintf("res%d", i))
		t := con.Results[i].Type
		body.WriteString(fmt.Sprintf("\tvar res%d %s\n\t_ = res%d\n", i, t, i))
	}
	assign := ""
	if len(resNames) > 0 {
		assign = strings.Join(resNames, ", ") + " = "
	}
	body.WriteString("\tpanicked := false\n\tfunc() {\n\t\tdefer func() {\n\t\t\tif e := recover(); e != nil {\n\t\t\t\tpanicked = true\n\t\t\t\tfmt.Printf(\"GOVC-REPLAY: panic: %v\\n\", e)\n\t\t\t}\n\t\t}()\n")
	body.WriteString("\t\t" + assign + callee + "(" + strings.Join(args, ", ") + ")\n\t}()\n")
	switch o.Kind {
	case "index", "slice", "nil", "nilmap", "div", "makeslice", "append", "panic":
		// a safety obligation: a panic of the real code on an input that satisfies the executable part of the
		// precondition is the failure itself
		body.WriteString("\tif panicked {\n\t\tfmt.Println(\"GOVC-REPLAY: confirmed (the real code panics on the model's input)\")\n\t\treturn\n\t}\n")
	default:
		// a functional clause: a panic says nothing about it (ghost preconditions cannot be evaluated, the input may
		// simply be outside them)
		body.WriteString("\tif panicked {\n\t\tfmt.Println(\"GOVC-REPLAY: not-reproduced (the real code panics on this input; the clause could not be evaluated)\")\n\t\treturn\n\t}\n")
	}
	if clauseGo != "" {
		body.WriteString("\tif !govcTry(func() bool { return " + clauseGo + " }) {\n\t\tfmt.Println(\"GOVC-REPLAY: confirmed (the real code violates the clause on the model's input)\")\n\t\treturn\n\t}\n")
	}
	body.WriteString("\tfmt.Println(\"GOVC-REPLAY: not-reproduced\")\n")
	imports := []string{"\"fmt\"", "\"testing\"", "\"reflect\""}
	full := body.String()
	for _, cand := range []struct{ pfx, imp string }{{"syntax.", "\"github.com/dlclark/regexp2/v2/syntax\""}, {"helpers.", "\"github.com/dlclark/regexp2/v2/helpers\""}, {"time.", "\"time\""}, {"unicode.", "\"unicode\""}, {"utf8.", "\"unicode/utf8\""}, {"bytes.", "\"bytes\""}, {"strings.", "\"strings\""}, {"strconv.", "\"strconv\""}} {
		if strings.Contains(full, cand.pfx) && pkgName != strings.TrimSuffix(cand.pfx, ".") {
			imports = append(imports, cand.imp)
		}
	}
	var sb strings.Builder
	sb.WriteString("package " + pkgName + "\n\n// generated by govc: replay of " + o.Name + "\n\nimport (\n")
	for _, im := range imports {
		sb.WriteString("\t" + im + "\n")
	}
	sb.WriteString(")\n\nvar govcMaxLen int\n\n")
	sb.WriteString(replayHelpers)
	sb.WriteString("\nfunc TestGovcReplay(t *testing.T) {\n" + full + "}\n")
	note := clauseNote
	if tooBig {
		note += " model lengths clamped"
	}
	return sb.String(), rel, note
}

const replayHelpers = `func govcTry(f func() bool) (ok bool) {
	defer func() {
		if recover() != nil {
			ok = true // undefined sub-expression (index out of range in the spec): treated as not violating
		}
	}()
	return f()
}

func govcTryDo(f func()) {
	defer func() { recover() }()
	f()
}

// comparisons of the specification are over mathematical integers: operands of different Go integer types compare by value
func govcNum(x any) (neg bool, mag uint64, ok bool) {
	v := reflect.ValueOf(x)
	switch v.Kind() {
	case reflect.Int, reflect.Int8, reflect.Int16, reflect.Int32, reflect.Int64:
		i := v.Int()
		if i < 0 {
			return true, uint64(-(i + 1)) + 1, true
		}
		return false, uint64(i), true
	case reflect.Uint, reflect.Uint8, reflect.Uint16, reflect.Uint32, reflect.Uint64, reflect.Uintptr:
		return false, v.Uint(), true
	}
	return false, 0, false
}

func govcCmp(a, b any) int {
	an, am, ok1 := govcNum(a)
	bn, bm, ok2 := govcNum(b)
	if !ok1 || !ok2 {
		panic("govc: ordered comparison of non-integers")
	}
	switch {
	case an && !bn:
		return -1
	case !an && bn:
		return 1
	case an && bn:
		am, bm = bm, am
	}
	switch {
	case am < bm:
		return -1
	case am > bm:
		return 1
	}
	return 0
}

func govcIsNil(x any) bool {
	if x == nil {
		return true
	}
	v := reflect.ValueOf(x)
	switch v.Kind() {
	case reflect.Ptr, reflect.Slice, reflect.Map, reflect.Func, reflect.Interface, reflect.Chan:
		return v.IsNil()
	}
	return false
}

func govcEq(a, b any) bool {
	if _, _, ok := govcNum(a); ok {
		if _, _, ok2 := govcNum(b); ok2 {
			return govcCmp(a, b) == 0
		}
	}
	if govcIsNil(a) || govcIsNil(b) {
		return govcIsNil(a) && govcIsNil(b)
	}
	va, vb := reflect.ValueOf(a), reflect.ValueOf(b)
	if (va.Kind() == reflect.Ptr || va.Kind() == reflect.Map || va.Kind() == reflect.Func) && va.Kind() == vb.Kind() {
		return va.Pointer() == vb.Pointer()
	}
	if va.Kind() == reflect.Slice && vb.Kind() == reflect.Slice {
		// slice values are equal when they denote the same elements of the same array
		return va.Pointer() == vb.Pointer() && va.Len() == vb.Len()
	}
	return reflect.DeepEqual(a, b) || func() (eq bool) { defer func() { recover() }(); return a == b }()
}

func govcIte[T any](c bool, a, b T) T {
	if c {
		return a
	}
	return b
}

func govcCopy[T any](x T) T {
	switch v := any(x).(type) {
	case []int:
		return any(append([]int(nil), v...)).(T)
	case []rune:
		return any(append([]rune(nil), v...)).(T)
	case []byte:
		return any(append([]byte(nil), v...)).(T)
	case []string:
		return any(append([]string(nil), v...)).(T)
	case [][]int:
		c := make([][]int, len(v))
		for i := range v {
			c[i] = append([]int(nil), v[i]...)
		}
		return any(c).(T)
	}
	return x
}
`

func (v *Verifier) replayModel(o *Obligation) map[string]interface{} {
	res := map[string]interface{}{}
	con := v.contracts.Funcs[o.Func]
	fn := v.funcs[o.Func]
	if con == nil || fn == nil {
		res["outcome"] = "not-replayable"
		res["reason"] = "function or contract not found"
		return res
	}
	src, rel, note := v.genReplayTest(o, con, fn)
	if src == "" {
		res["outcome"] = "not-replayable"
		res["reason"] = note
		return res
	}
	res["test_source"] = src
	res["package_dir"] = rel
	if note != "" {
		res["note"] = note
	}
	out, outcome := runReplayTest(v.repo, rel, src)
	res["output"] = truncate(out, 3000)
	res["outcome"] = outcome
	return res
}

// runReplayTest runs the generated test inside the package through an overlay.
func runReplayTest(repo, rel, src string) (string, string) {
	dir, err := os.MkdirTemp("", "govc-replay")
	if err != nil {
		return err.Error(), "not-replayable"
	}
	defer os.RemoveAll(dir)
	tf := filepath.Join(dir, "zz_govc_replay_test.go")
	os.WriteFile(tf, []byte(src), 0o644)
	target := filepath.Join(repo, rel, "zz_govc_replay_test.go")
	ov := map[string]map[string]string{"Replace": {target: tf}}
	data, _ := json.Marshal(ov)
	ovf := filepath.Join(dir, "ov.json")
	os.WriteFile(ovf, data, 0o644)
	cmd := exec.Command("bash", "-c", fmt.Sprintf("ulimit -v 8000000; cd %q && go test -overlay %q -vet=off -count=1 -v -timeout 60s -run '^TestGovcReplay$' .", filepath.Join(repo, rel), ovf))
	cmd.Env = os.Environ()
	done := make(chan struct{})
	var out []byte
	go func() {
		out, _ = cmd.CombinedOutput()
		close(done)
	}()
	select {
	case <-done:
	case <-time.After(120 * time.Second):
		if cmd.Process != nil {
			cmd.Process.Kill()
		}
		return "replay timed out", "not-replayable"
	}
	s := string(out)
	switch {
	case strings.Contains(s, "GOVC-REPLAY: confirmed"):
		return s, "confirmed"
	case strings.Contains(s, "GOVC-REPLAY: not-reproduced"):
		return s, "not-reproduced"
	case strings.Contains(s, "GOVC-REPLAY: precondition-not-met"):
		return s, "precondition-not-met"
	case strings.Contains(s, "panic: test timed out"):
		return s, "confirmed" // the real code hangs on this input
	}
	return s, "not-replayable"
}

// relaxedModel: for an undischarged obligation without a model, ask for a candidate model of the
// quantifier-free part of the query (assumptions with quantifiers dropped). Candidates are only
// trusted if they replay on the real code.
func relaxedModel(c *Ctx, o *Obligation, dir string) map[string]string {
	var sb strings.Builder
	sb.WriteString("(declare-sort Str 0)\n")
	for _, d := range c.decls {
		sb.WriteString(d + "\n")
	}
	for _, a := range c.asserts[:o.N] {
		if strings.Contains(a.term, "(forall ") || strings.Contains(a.term, "(exists ") {
			continue
		}
		sb.WriteString("(assert " + a.term + ")\n")
	}
	// prefer small slices
	for _, mv := range o.ModelVars {
		if mv.Role == "len" || mv.Role == "strlen" {
			sb.WriteString("(assert-soft (<= " + mv.Term + " 8))\n")
		}
	}
	sb.WriteString("(assert (not " + o.Goal + "))\n(check-sat)\n")
	var ts []string
	for _, mv := range o.ModelVars {
		ts = append(ts, mv.Term)
	}
	if len(ts) == 0 {
		return nil
	}
	sb.WriteString("(get-value (" + strings.Join(ts, " ") + "))\n")
	f := filepath.Join(dir, "relaxed.smt2")
	os.WriteFile(f, []byte(sb.String()), 0o644)
	defer os.Remove(f)
	r := runSolver("z3-new", []string{"-T:8"}, f, 8*time.Second)
	if r.verdict != "sat" {
		return nil
	}
	return parseModel(r.out, o)
}
