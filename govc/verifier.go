package main

// Verifier: program loading, per-function verification driver, mod-set analysis.

import (
	"encoding/json"
	"fmt"
	"go/token"
	"go/types"
	"os"
	"path/filepath"
	"sort"
	"strings"

	"golang.org/x/tools/go/packages"
	"golang.org/x/tools/go/ssa"
	"golang.org/x/tools/go/ssa/ssautil"
)

type Verifier struct {
	nameHints map[string][][2]string // function key -> locals (name, type) in declaration order, recorded on the reference tree
	repo      string
	fset      *token.FileSet
	prog      *ssa.Program
	pkgs      []*ssa.Package
	allPkgs   []*types.Package
	funcs     map[string]*ssa.Function
	contracts *ContractSet

	// per-function state
	ctx           *Ctx
	curRoot       *Frame
	parentOf      map[*Frame]*Frame
	facts         map[Term]bool
	knownNonNil   map[Term]bool
	strDeclared   bool
	strLits       map[string]Term
	substrAx      bool
	funcIDs       map[*ssa.Function]Term
	defFuns       map[string]string
	oldRefs       map[Term]bool
	storeInfo     map[Term]storeRec
	nonNilGlobals map[Term]bool
	entryReads    map[Term]bool

	derived map[string]int // embedded struct field -> index (global, stable within a run)

	// accounting (whole run)
	assumeMath     map[string]bool
	assumedCallees map[string]bool
	usedContracts  map[string]bool
	trustedUsed    map[string]string
	inlined        map[string]bool
	notes          map[string]bool
	modCache       map[*ssa.Function]*modSet
	modInProgress  map[*ssa.Function]bool
	axiomsUsed     map[string]bool
	ctxOf          map[*Obligation]*Ctx
}

func (v *Verifier) note(s string) { v.notes[s] = true }

func loadProgram(repo string) (*Verifier, error) {
	cfg := &packages.Config{Mode: packages.LoadAllSyntax, Dir: repo, BuildFlags: []string{"-tags=verif"}, Tests: false}
	pkgs, err := packages.Load(cfg, "./...")
	if err != nil {
		return nil, err
	}
	nerr := 0
	packages.Visit(pkgs, nil, func(p *packages.Package) {
		for _, e := range p.Errors {
			fmt.Fprintf(os.Stderr, "load error: %v\n", e)
			nerr++
		}
	})
	if nerr > 0 {
		return nil, fmt.Errorf("%d package load errors", nerr)
	}
	prog, spkgs := ssautil.AllPackages(pkgs, ssa.InstantiateGenerics|ssa.GlobalDebug)
	prog.Build()
	v := &Verifier{repo: repo, prog: prog, funcs: map[string]*ssa.Function{}, derived: map[string]int{},
		assumeMath: map[string]bool{}, assumedCallees: map[string]bool{}, usedContracts: map[string]bool{}, trustedUsed: map[string]string{},
		inlined: map[string]bool{}, notes: map[string]bool{}, modCache: map[*ssa.Function]*modSet{}, modInProgress: map[*ssa.Function]bool{},
		axiomsUsed: map[string]bool{}, ctxOf: map[*Obligation]*Ctx{}}
	if len(pkgs) > 0 {
		v.fset = pkgs[0].Fset
	}
	seen := map[*types.Package]bool{}
	packages.Visit(pkgs, nil, func(p *packages.Package) {
		if p.Types != nil && !seen[p.Types] {
			seen[p.Types] = true
			v.allPkgs = append(v.allPkgs, p.Types)
		}
	})
	for _, sp := range spkgs {
		if sp == nil {
			continue
		}
		v.pkgs = append(v.pkgs, sp)
	}
	for fn := range ssautil.AllFunctions(prog) {
		if fn.Pkg == nil && fn.Origin() == nil {
			continue
		}
		if fn.Synthetic != "" && !strings.Contains(fn.Synthetic, "instance") {
			continue
		}
		key := funcKey(fn)
		inRepo := fn.Pkg != nil && strings.HasPrefix(fn.Pkg.Pkg.Path(), "github.com/dlclark/regexp2")
		if fn.Pkg == nil && fn.Origin() != nil && fn.Origin().Pkg != nil {
			inRepo = strings.HasPrefix(fn.Origin().Pkg.Pkg.Path(), "github.com/dlclark/regexp2")
		}
		if old, dup := v.funcs[key]; dup {
			oldRepo := old.Pkg != nil && strings.HasPrefix(old.Pkg.Pkg.Path(), "github.com/dlclark/regexp2")
			if oldRepo && !inRepo {
				continue // never let a standard-library function shadow a repository function of the same short name
			}
		}
		v.funcs[key] = fn
	}
	cs, err := loadContractFiles(repo)
	if err != nil {
		return nil, err
	}
	// library contracts shipped with the verifier
	if libDir := os.Getenv("GOVC_LIB"); libDir != "" {
		lcs, err := loadContractFiles(libDir)
		if err != nil {
			return nil, err
		}
		for k, c := range lcs.Funcs {
			if _, dup := cs.Funcs[k]; !dup {
				cs.Funcs[k] = c
			}
		}
		for k, s := range lcs.Specs {
			cs.Specs[k] = s
		}
		for k, g := range lcs.GhostFields {
			cs.GhostFields[k] = g
		}
		cs.Axioms = append(cs.Axioms, lcs.Axioms...)
		cs.Files = append(cs.Files, lcs.Files...)
		// name hints: locals of each function under contract in declaration order, as recorded on the reference tree
		if data, err := os.ReadFile(filepath.Join(libDir, "names.json")); err == nil {
			json.Unmarshal(data, &v.nameHints)
		}
	}
	// "implements X": the function takes over the clauses of funcspec X (same parameter names required)
	for _, c := range cs.Funcs {
		for _, name := range c.Implements {
			fs := cs.FuncSpecs[c.PkgName+"."+name]
			if fs == nil {
				return nil, fmt.Errorf("%s: funcspec %s not found", c.Key, name)
			}
			if len(fs.Params) != len(c.Params) || len(fs.Results) != len(c.Results) {
				return nil, fmt.Errorf("%s: signature differs from funcspec %s", c.Key, name)
			}
			for i := range fs.Params {
				if fs.Params[i].Name != c.Params[i].Name {
					return nil, fmt.Errorf("%s: parameter names differ from funcspec %s", c.Key, name)
				}
			}
			for i := range fs.Results {
				if fs.Results[i].Name != c.Results[i].Name {
					return nil, fmt.Errorf("%s: result names differ from funcspec %s", c.Key, name)
				}
			}
			c.Requires = append(append([]*Clause{}, fs.Requires...), c.Requires...)
			c.Ensures = append(append([]*Clause{}, fs.Ensures...), c.Ensures...)
			c.Modifies = append(append([]*Clause{}, fs.Modifies...), c.Modifies...)
			c.HasMod = c.HasMod || fs.HasMod
		}
	}
	v.contracts = cs
	return v, nil
}

func (v *Verifier) funcID(c *Ctx, fn *ssa.Function) Term {
	if t, ok := v.funcIDs[fn]; ok {
		return t
	}
	t := num(int64(1000 + len(v.funcIDs)))
	v.funcIDs[fn] = t
	return t
}

func (v *Verifier) newFrame(fn *ssa.Function, con *Contract, top bool) *Frame {
	return &Frame{v: v, ctx: v.ctx, fn: fn, con: con, top: top,
		vals: map[ssa.Value]Val{}, reach: map[*ssa.BasicBlock]Term{}, out: map[*ssa.BasicBlock]*State{},
		edgeCond: map[[2]*ssa.BasicBlock]Term{}, nonNil: map[Term]*ssa.BasicBlock{}, counters: map[string]int{},
		touched: map[string]string{}, envBase: map[string]Val{}, canaryGoals: map[int][]Term{}, reachParts: map[*ssa.BasicBlock][]Term{}}
}

func (v *Verifier) autoInline(fn *ssa.Function) bool {
	if fn.Pkg == nil || len(fn.Blocks) == 0 {
		return false
	}
	if !strings.HasPrefix(fn.Pkg.Pkg.Path(), "github.com/dlclark/regexp2") {
		return false
	}
	n := 0
	for _, b := range fn.Blocks {
		for _, s := range b.Succs {
			if s.Dominates(b) {
				return false // has a loop
			}
		}
		n += len(b.Instrs)
	}
	return n <= 80
}

func (v *Verifier) libCall(fr *Frame, ins ssa.Instruction, fn *ssa.Function, args []Val, st *State, reach Term) (Val, *State, bool) {
	return Val{}, nil, false
}

type FuncResult struct {
	Key         string
	Obligations []*Obligation
	Ctx         *Ctx
	Err         string
	Notes       []string
}

// verifyFunction encodes one function under contract and returns its obligations.
func (v *Verifier) verifyFunction(key string) (res *FuncResult) {
	res = &FuncResult{Key: key}
	con := v.contracts.Funcs[key]
	fn := v.funcs[key]
	if con == nil {
		res.Err = "no contract for " + key
		return
	}
	if fn == nil {
		res.Err = "function " + key + " not found in the program (renamed or removed?)"
		return
	}
	v.ctx = newCtx()
	res.Ctx = v.ctx
	v.parentOf = map[*Frame]*Frame{}
	v.facts = map[Term]bool{}
	v.knownNonNil = map[Term]bool{}
	v.strDeclared = false
	v.strLits = map[string]Term{}
	v.substrAx = false
	v.funcIDs = map[*ssa.Function]Term{}
	v.defFuns = map[string]string{}
	v.oldRefs = map[Term]bool{}
	v.storeInfo = map[Term]storeRec{}
	v.nonNilGlobals = map[Term]bool{}
	v.entryReads = map[Term]bool{}
	baseCounter = 0
	defer func() {
		if r := recover(); r != nil {
			if e, ok := r.(EncError); ok {
				res.Err = e.msg
				res.Obligations = nil
				return
			}
			panic(r)
		}
	}()
	fr := v.newFrame(fn, con, true)
	v.curRoot = fr
	fr.objPfx = key
	fr.props = con.Props
	c := v.ctx
	fr.entrySt = c.entryState()
	fr.oldSt = fr.entrySt
	fr.entryR = "true"
	// parameters
	for _, p := range fn.Params {
		pv := v.freshValIn(c, p.Type(), "p."+p.Name())
		fr.params = append(fr.params, pv)
		v.allocatedFact(c, pv, fr.entrySt.nxt)
	}
	for _, f := range fn.FreeVars {
		if os.Getenv("GOVC_DEBUG") != "" {
			fmt.Printf("debug freevar %s : %s\n", f.Name(), f.Type())
		}
		pv := v.freshValIn(c, f.Type(), "fv."+f.Name())
		if pv.K == KLoc && pv.Loc != nil && pv.Loc.Ref != "" {
			c.assert(lt("0", pv.Loc.Ref), "captured variable cell is allocated")
		}
		fr.free = append(fr.free, pv)
		v.allocatedFact(c, pv, fr.entrySt.nxt)
	}
	fr.envBase = fr.bindContractEnv(con, fn, fr.params, fr.free, fn.Pkg.Pkg)
	// axioms of the package(s)
	for _, ax := range v.contracts.Axioms {
		env := &Env{fr: fr, vars: map[string]Val{}, cur: fr.entrySt, old: fr.entrySt, pkg: v.pkgByName(fn.Pkg.Pkg, ax.PkgName)}
		if env.pkg == nil {
			continue
		}
		if !v.axiomRelevant(ax, fn) {
			continue
		}
		t := v.evalBool(env, ax.Expr)
		c.assert(t, "axiom "+ax.Name+": "+ax.Text)
		v.axiomsUsed[ax.PkgName+"."+ax.Name] = true
	}
	// requires
	for _, rq := range con.Requires {
		env := fr.specEnv(fr.entrySt, fr.entrySt)
		t := v.evalBool(env, rq.Expr)
		if rq.Canary {
			continue
		}
		c.assert(t, "requires: "+rq.Text)
	}
	for _, as := range con.Assumes {
		env := fr.specEnv(fr.entrySt, fr.entrySt)
		t := v.evalBool(env, as.Expr)
		c.assert(t, "ASSUMED (listed in evidence): "+as.Text)
		v.note(key + ": assumed without proof: " + as.Text)
	}
	// vacuity cover: preconditions satisfiable
	cov := fr.addObl("cover", "requires-satisfiable", "false", "preconditions and type facts are satisfiable (must NOT be provable)", "", con.Props, true)
	cov.Bounded = ""
	fr.bodyStart = len(c.asserts)
	fr.run()
	// at least one return reachable
	if len(fr.rets) > 0 {
		var cs []Term
		for _, r := range fr.rets {
			cs = append(cs, not(r.cond))
		}
		fr.addObl("cover", "return-reachable", and(cs...), "some return is reachable (must NOT be provable)", "", con.Props, true)
	}
	for j, en := range con.Ensures {
		if en.Canary && len(fr.canaryGoals[j]) > 0 {
			lab := en.Label
			if lab == "" {
				lab = fmt.Sprint(j)
			}
			fr.addObl("canary-ensures", lab, and(fr.canaryGoals[j]...), en.Text+"  (deliberately false: must NOT be provable)", fmt.Sprintf("%s:%d", shortPath(en.File), en.Line), fr.clauseProps(en), true)
		}
	}
	res.Obligations = c.obls
	return
}

func (v *Verifier) axiomRelevant(ax *Axiom, fn *ssa.Function) bool {
	return ax.PkgName == fn.Pkg.Pkg.Name()
}

func (v *Verifier) allocatedFact(c *Ctx, pv Val, nxt Term) {
	switch pv.K {
	case KRef, KMap, KArr:
		c.assert(lt(pv.A, nxt), "parameter allocated")
		v.oldRefs[pv.A] = true
	case KSlice:
		c.assert(lt(pv.A, nxt), "parameter allocated")
		v.oldRefs[pv.A] = true
	case KLoc:
		if pv.Loc.Ref != "" {
			c.assert(lt(pv.Loc.Ref, nxt), "parameter allocated")
			v.oldRefs[pv.Loc.Ref] = true
		}
	case KStruct:
		for _, f := range pv.Fields {
			v.allocatedFact(c, f, nxt)
		}
	}
}

const replayElems = 8

func (v *Verifier) modelVarsFor(fr *Frame) []modelVar {
	root := v.curRoot
	if root == nil {
		return nil
	}
	if root.mvars != nil {
		return root.mvars
	}
	var out []modelVar
	pkg := root.fn.Pkg.Pkg
	tstr := func(t types.Type) string {
		if t == nil {
			return ""
		}
		return types.TypeString(t, func(p *types.Package) string {
			if p == pkg {
				return ""
			}
			return p.Name()
		})
	}
	seen := map[string]bool{}
	addPath := func(pe SExpr) {
		name := pe.String()
		if seen[name] {
			return
		}
		seen[name] = true
		func() {
			defer func() { recover() }()
			env := root.specEnv(root.entrySt, root.entrySt)
			val := v.evalSpec(env, pe)
			switch val.K {
			case KInt, KBool:
				out = append(out, modelVar{Name: "@" + name, Term: val.A, Path: name, Role: "scalar", GoType: tstr(val.T)})
			case KRef, KMap, KIface, KFunc:
				out = append(out, modelVar{Name: "@" + name, Term: val.A, Path: name, Role: "ptr", GoType: tstr(val.T)})
			case KLoc:
				if val.Loc.Ref != "" {
					out = append(out, modelVar{Name: "@" + name, Term: val.Loc.Ref, Path: name, Role: "ptr", GoType: tstr(val.T)})
				}
			case KSlice:
				out = append(out, modelVar{Name: "@len(" + name + ")", Term: val.Len, Path: name, Role: "len", GoType: tstr(val.T)})
				out = append(out, modelVar{Name: "@ref(" + name + ")", Term: val.A, Path: name, Role: "sliceref", GoType: tstr(val.T)})
				if sl, ok := val.T.Underlying().(*types.Slice); ok {
					switch kindOf(sl.Elem()) {
					case KInt, KBool:
						for i := 0; i < replayElems; i++ {
							l, et := root.elemLoc(val, num(int64(i)))
							ev := root.loadLocQuiet(root.entrySt, l, et)
							out = append(out, modelVar{Name: fmt.Sprintf("@%s[%d]", name, i), Term: ev.A, Path: name, Role: "elem", GoType: tstr(val.T), Index: i})
						}
					}
				}
			case KStr:
				out = append(out, modelVar{Name: "@len(" + name + ")", Term: app("slen", val.A), Path: name, Role: "strlen", GoType: "string"})
				for i := 0; i < replayElems; i++ {
					out = append(out, modelVar{Name: fmt.Sprintf("@%s[%d]", name, i), Term: app("sbyte", val.A, num(int64(i))), Path: name, Role: "strbyte", GoType: "string", Index: i})
				}
			}
		}()
	}
	if root.con != nil {
		if root.con.Recv != nil {
			addPath(&SIdent{root.con.Recv.Name})
		}
		for _, p := range root.con.Params {
			if p.Name != "_" {
				addPath(&SIdent{p.Name})
			}
		}
		var clauses []*Clause
		clauses = append(clauses, root.con.Requires...)
		clauses = append(clauses, root.con.Ensures...)
		for _, cl := range clauses {
			for _, pe := range collectPaths(cl.Expr, v, root) {
				addPath(pe)
			}
		}
	}
	root.mvars = out
	if root.mvars == nil {
		root.mvars = []modelVar{}
	}
	return out
}

// ---------- mod-set analysis ----------

type modSet struct {
	comps     map[string]string
	all       bool
	allocates bool
}

func newModSet() *modSet { return &modSet{comps: map[string]string{}} }
func (m *modSet) has(c string) bool {
	_, ok := m.comps[c]
	return ok
}
func (m *modSet) add(c, s string) { m.comps[c] = s }
func (m *modSet) union(o *modSet) {
	for c, s := range o.comps {
		m.comps[c] = s
	}
	m.all = m.all || o.all
	m.allocates = m.allocates || o.allocates
}
func (m *modSet) sorted() []string {
	var ks []string
	for k := range m.comps {
		ks = append(ks, k)
	}
	sort.Strings(ks)
	return ks
}

func isElemPath(x ssa.Value) bool {
	switch a := x.(type) {
	case *ssa.IndexAddr:
		return true
	case *ssa.FieldAddr:
		return isElemPath(a.X)
	}
	return false
}

// addrPrefix: static component prefix of an address-valued SSA value.
func (v *Verifier) addrPrefix(addr ssa.Value) (string, bool) {
	switch a := addr.(type) {
	case *ssa.IndexAddr:
		switch t := a.X.Type().Underlying().(type) {
		case *types.Slice:
			return "E:" + typeName(t.Elem()), true
		case *types.Pointer:
			if at, ok := t.Elem().Underlying().(*types.Array); ok {
				return "E:" + typeName(at.Elem()), true
			}
		}
		return "", false
	case *ssa.FieldAddr:
		pt := a.X.Type().Underlying().(*types.Pointer).Elem()
		fname := pt.Underlying().(*types.Struct).Field(a.Field).Name()
		if isElemPath(a.X) {
			p, ok := v.addrPrefix(a.X)
			return p + "." + fname, ok
		}
		switch a.X.(type) {
		case *ssa.Global:
			p, ok := v.addrPrefix(a.X)
			return p + "." + fname, ok
		}
		return fieldCompName(pt, fname), true
	case *ssa.Global:
		return "G:" + a.Pkg.Pkg.Name() + "." + a.Name(), true
	}
	if pt, ok := addr.Type().Underlying().(*types.Pointer); ok {
		if _, isStruct := pt.Elem().Underlying().(*types.Struct); !isStruct {
			return "C:" + typeName(pt.Elem()), true
		}
	}
	return "", false
}

func (v *Verifier) addStoreComps(ms *modSet, prefix string, t types.Type) {
	elem := strings.HasPrefix(prefix, "E:")
	glob := strings.HasPrefix(prefix, "G:")
	for _, sc := range v.leafComps(t) {
		srt := arrSort(sc.sort)
		if elem {
			srt = arr2Sort(sc.sort)
		}
		if glob {
			srt = sc.sort
		}
		ms.add(prefix+sc.suffix, srt)
	}
}

func (v *Verifier) addObjComps(ms *modSet, t types.Type) {
	stt, ok := t.Underlying().(*types.Struct)
	if !ok {
		return
	}
	for i := 0; i < stt.NumFields(); i++ {
		f := stt.Field(i)
		switch kindOf(f.Type()) {
		case KStruct:
			v.addObjComps(ms, f.Type())
		case KArr:
			if at, ok := f.Type().Underlying().(*types.Array); ok {
				v.addStoreComps(ms, "E:"+typeName(at.Elem()), at.Elem())
				continue
			}
			v.addStoreComps(ms, fieldCompName(t, f.Name()), f.Type())
		default:
			v.addStoreComps(ms, fieldCompName(t, f.Name()), f.Type())
		}
	}
}

func (v *Verifier) instrMods(fr *Frame, ins ssa.Instruction, ms *modSet) {
	switch i := ins.(type) {
	case *ssa.Store:
		pt := i.Addr.Type().Underlying().(*types.Pointer).Elem()
		if _, isStruct := pt.Underlying().(*types.Struct); isStruct && !isElemPath(i.Addr) {
			if _, isG := i.Addr.(*ssa.Global); !isG {
				v.addObjComps(ms, pt)
				return
			}
		}
		p, ok := v.addrPrefix(i.Addr)
		if !ok {
			ms.all = true
			return
		}
		v.addStoreComps(ms, p, pt)
	case *ssa.Alloc:
		ms.allocates = true
		pt := i.Type().Underlying().(*types.Pointer).Elem()
		switch kindOf(pt) {
		case KStruct:
			v.addObjComps(ms, pt)
		case KArr:
			if at, ok := pt.Underlying().(*types.Array); ok {
				v.addStoreComps(ms, "E:"+typeName(at.Elem()), at.Elem())
			}
		default:
			v.addStoreComps(ms, "C:"+typeName(pt), pt)
		}
	case *ssa.MakeSlice:
		ms.allocates = true
		et := i.Type().Underlying().(*types.Slice).Elem()
		v.addStoreComps(ms, "E:"+typeName(et), et)
	case *ssa.MakeMap:
		ms.allocates = true
		pfx, ks, _ := mapComps(i.Type())
		ms.add(pfx+"#dom", "(Array Int (Array "+ks+" Bool))")
		ms.add(pfx+"#card", arrSort("Int"))
	case *ssa.MapUpdate:
		pfx, ks, vt := mapComps(i.Map.Type())
		ms.add(pfx+"#dom", "(Array Int (Array "+ks+" Bool))")
		ms.add(pfx+"#card", arrSort("Int"))
		switch kindOf(vt) {
		case KInt, KRef, KIface, KFunc, KMap:
			ms.add(pfx+"#val", "(Array Int (Array "+ks+" Int))")
		case KBool:
			ms.add(pfx+"#val", "(Array Int (Array "+ks+" Bool))")
		case KStr:
			ms.add(pfx+"#val", "(Array Int (Array "+ks+" Str))")
		}
	case *ssa.Range:
		ms.allocates = true
		ms.add(iterComp, arrSort("Int"))
	case *ssa.Next:
		ms.add(iterComp, arrSort("Int"))
	case *ssa.MakeClosure, *ssa.MakeInterface:
	case *ssa.Convert:
		if kindOf(i.Type()) == KSlice {
			ms.allocates = true
		}
	case ssa.CallInstruction:
		v.callMods(fr, i, ms)
	}
}

func (v *Verifier) callMods(fr *Frame, ci ssa.CallInstruction, ms *modSet) {
	cc := ci.Common()
	if cc.IsInvoke() {
		ms.all = true
		return
	}
	if b, ok := cc.Value.(*ssa.Builtin); ok {
		switch b.Name() {
		case "append", "copy":
			if sl, ok := cc.Args[0].Type().Underlying().(*types.Slice); ok {
				v.addStoreComps(ms, "E:"+typeName(sl.Elem()), sl.Elem())
			}
			if b.Name() == "append" {
				ms.allocates = true
			}
		case "delete":
			pfx, ks, _ := mapComps(cc.Args[0].Type())
			ms.add(pfx+"#dom", "(Array Int (Array "+ks+" Bool))")
			ms.add(pfx+"#card", arrSort("Int"))
		}
		return
	}
	fn := cc.StaticCallee()
	if fn == nil {
		// function value: statically known closure? funcspec?
		if fr != nil {
			if val, ok := fr.vals[cc.Value]; ok && val.Fn != nil {
				if f2, ok := val.Fn.(*ssa.Function); ok {
					fn = f2
				}
			}
			if fn == nil && fr.con != nil {
				name := fr.nameOfValue(cc.Value)
				if specName, ok := fr.con.Calls[name]; ok {
					if fs := v.contracts.FuncSpecs[fr.fn.Pkg.Pkg.Name()+"."+specName]; fs != nil {
						ms.union(v.contractMods(fs, fr.fn.Pkg.Pkg))
						return
					}
				}
			}
		}
		if fn == nil {
			ms.all = true
			return
		}
	}
	key := funcKey(fn)
	con := v.contracts.Funcs[key]
	if con == nil && fn.Origin() != nil {
		con = v.contracts.Funcs[funcKey(fn.Origin())]
	}
	if con != nil && !con.Inline {
		var pkg *types.Package
		if fn.Pkg != nil {
			pkg = fn.Pkg.Pkg
		} else {
			pkg = v.pkgByName(nil, con.PkgName)
		}
		ms.union(v.contractMods(con, pkg))
		return
	}
	ms.union(v.modOf(fn))
}

var contractModCache = map[*Contract]*modSet{}

// contractMods: components named by a contract's modifies clauses (type-directed, refs ignored).
func (v *Verifier) contractMods(con *Contract, pkg *types.Package) *modSet {
	if m, ok := contractModCache[con]; ok {
		return m
	}
	ms := newModSet()
	if !con.Pure {
		ms.allocates = true
	}
	if pkg == nil {
		pkg = v.pkgByName(nil, con.PkgName)
	}
	vars := map[string]Val{}
	c := v.ctx
	if con.Recv != nil {
		vars[con.Recv.Name] = v.freshValIn(c, v.resolveType(pkg, con.Recv.Type), "ms")
	}
	for _, p := range con.Params {
		vars[p.Name] = v.freshValIn(c, v.resolveType(pkg, p.Type), "ms")
	}
	for _, p := range con.Free {
		vars[p.Name] = v.freshValIn(c, v.resolveType(pkg, p.Type), "ms")
	}
	st := v.curRoot.entrySt
	for _, m := range v.evalModifies(v.curRoot, con, vars, st, pkg) {
		if m.all {
			ms.all = true
			continue
		}
		ms.add(m.comp, m.sort)
	}
	// do not cache across functions: ctx differs but the component names are stable
	contractModCache[con] = ms
	return ms
}

func (v *Verifier) modOf(fn *ssa.Function) *modSet {
	if m, ok := v.modCache[fn]; ok {
		return m
	}
	if v.modInProgress[fn] {
		ms := newModSet()
		ms.all = true // recursion: give up precision
		return ms
	}
	ms := newModSet()
	if len(fn.Blocks) == 0 {
		// external function without contract: assumed to modify nothing reachable from the repo's heap
		if fn.Pkg != nil && strings.HasPrefix(fn.Pkg.Pkg.Path(), "github.com/dlclark/regexp2") {
			ms.all = true
		}
		v.modCache[fn] = ms
		return ms
	}
	if fn.Pkg != nil && !strings.HasPrefix(fn.Pkg.Pkg.Path(), "github.com/dlclark/regexp2") {
		// standard library: assumed not to write to the repo's data structures (listed assumption)
		ms.allocates = true
		v.modCache[fn] = ms
		return ms
	}
	v.modInProgress[fn] = true
	for _, b := range fn.Blocks {
		for _, ins := range b.Instrs {
			v.instrMods(nil, ins, ms)
		}
	}
	delete(v.modInProgress, fn)
	v.modCache[fn] = ms
	return ms
}

func (v *Verifier) loopModSet(fr *Frame, li *loopInfo) *modSet {
	if li.mods != nil {
		return li.mods
	}
	ms := newModSet()
	var blocks []*ssa.BasicBlock
	for b := range li.body {
		blocks = append(blocks, b)
	}
	sort.Slice(blocks, func(i, j int) bool { return blocks[i].Index < blocks[j].Index })
	for _, b := range blocks {
		for _, ins := range b.Instrs {
			v.instrMods(fr, ins, ms)
		}
	}
	li.mods = ms
	return ms
}

// collectPaths returns the access paths (x, x.f, x.f.g, *p) occurring in a spec expression that do not depend on bound variables.
func collectPaths(e SExpr, v *Verifier, root *Frame) []SExpr {
	var out []SExpr
	var walk func(e SExpr, bound map[string]bool)
	isPath := func(e SExpr, bound map[string]bool) bool {
		for {
			switch x := e.(type) {
			case *SIdent:
				return !bound[x.Name]
			case *SSel:
				e = x.X
			case *SUnary:
				if x.Op != "*" {
					return false
				}
				e = x.X
			default:
				return false
			}
		}
	}
	walk = func(e SExpr, bound map[string]bool) {
		if e == nil {
			return
		}
		if isPath(e, bound) {
			out = append(out, e)
			if s, ok := e.(*SSel); ok {
				walk(s.X, bound)
			}
			return
		}
		switch x := e.(type) {
		case *SUnary:
			walk(x.X, bound)
		case *SBinary:
			walk(x.X, bound)
			walk(x.Y, bound)
		case *SSel:
			walk(x.X, bound)
		case *SIndex:
			walk(x.X, bound)
			walk(x.I, bound)
		case *SSlice:
			walk(x.X, bound)
			walk(x.Lo, bound)
			walk(x.Hi, bound)
		case *SCall:
			if id, ok := x.Fn.(*SIdent); ok {
				env := &Env{pkg: root.fn.Pkg.Pkg}
				if sf := v.lookupSpec(env, id.Name); sf != nil && sf.Body != nil && len(sf.Params) == len(x.Args) {
					// expand: paths of the body with parameters substituted
					sub := map[string]SExpr{}
					for i, p := range sf.Params {
						sub[p.Name] = x.Args[i]
					}
					walk(substSpec(sf.Body, sub), bound)
					return
				}
			}
			for _, a := range x.Args {
				walk(a, bound)
			}
		case *SQuant:
			nb := map[string]bool{}
			for k := range bound {
				nb[k] = true
			}
			for _, b := range x.Vars {
				nb[b.Name] = true
			}
			walk(x.Body, nb)
		case *SLet:
			walk(x.Val, bound)
			nb := map[string]bool{}
			for k := range bound {
				nb[k] = true
			}
			nb[x.Name] = true
			walk(x.Body, nb)
		}
	}
	walk(e, map[string]bool{})
	return out
}

func substSpec(e SExpr, sub map[string]SExpr) SExpr {
	switch x := e.(type) {
	case *SIdent:
		if r, ok := sub[x.Name]; ok {
			return r
		}
		return x
	case *SUnary:
		return &SUnary{x.Op, substSpec(x.X, sub)}
	case *SBinary:
		return &SBinary{x.Op, substSpec(x.X, sub), substSpec(x.Y, sub)}
	case *SSel:
		return &SSel{substSpec(x.X, sub), x.Name}
	case *SIndex:
		return &SIndex{substSpec(x.X, sub), substSpec(x.I, sub)}
	case *SSlice:
		var lo, hi SExpr
		if x.Lo != nil {
			lo = substSpec(x.Lo, sub)
		}
		if x.Hi != nil {
			hi = substSpec(x.Hi, sub)
		}
		return &SSlice{substSpec(x.X, sub), lo, hi}
	case *SCall:
		var as []SExpr
		for _, a := range x.Args {
			as = append(as, substSpec(a, sub))
		}
		return &SCall{x.Fn, as}
	case *SQuant:
		ns := map[string]SExpr{}
		for k, v := range sub {
			ns[k] = v
		}
		for _, b := range x.Vars {
			delete(ns, b.Name)
		}
		var pats []SExpr
		for _, pe := range x.Pats {
			pats = append(pats, substSpec(pe, ns))
		}
		var alts [][]SExpr
		for _, g := range x.AltPats {
			var ng []SExpr
			for _, pe := range g {
				ng = append(ng, substSpec(pe, ns))
			}
			alts = append(alts, ng)
		}
		return &SQuant{Forall: x.Forall, Vars: x.Vars, Body: substSpec(x.Body, ns), Pats: pats, AltPats: alts}
	case *SLet:
		ns := map[string]SExpr{}
		for k, v := range sub {
			ns[k] = v
		}
		delete(ns, x.Name)
		return &SLet{x.Name, substSpec(x.Val, sub), substSpec(x.Body, ns)}
	}
	return e
}
