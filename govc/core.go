package main

// Core data structures of the VC generator: SMT context, symbolic values, lazily resolved heap state.

import (
	"fmt"
	"go/types"
	"math/big"
	"os"
	"sort"
	"strings"
)

type Term = string

type Kind int

const (
	KInt Kind = iota
	KBool
	KStr
	KRef   // pointer to struct object (Int, 0 = nil)
	KLoc   // pointer to a non-struct location (field, element, cell)
	KSlice // (ref, off, len, cap) + element type
	KStruct
	KTuple
	KIface // Int identity, 0 = nil
	KFunc  // Int identity, 0 = nil; Fn if statically known
	KMap   // Int ref, 0 = nil
	KArr   // pointer to / value of a fixed array: backing ref (Int)
	KUnit
)

type Loc struct {
	Comp string // component name (field comps are "H:..." indexed by Ref; element comps "E:..." indexed by Ref then Idx; globals "G:..." not indexed)
	Ref  Term
	Idx  Term // "" unless element location
	Off  Term // element locations: offset of the slice inside its backing array ("" or "0" = none)
	T    types.Type
}

type Val struct {
	K      Kind
	T      types.Type
	A      Term // Int/Bool/Str/Ref/Iface/Func/Map term; slice: ref
	Off    Term
	Len    Term
	Cap    Term
	Fields []Val
	Loc    *Loc
	Fn     interface{} // *ssa.Function for static function values / closures
	Bind   []Val       // closure bindings
}

func (v Val) String() string {
	switch v.K {
	case KSlice:
		return fmt.Sprintf("slice(%s,%s,%s,%s)", v.A, v.Off, v.Len, v.Cap)
	case KStruct, KTuple:
		var p []string
		for _, f := range v.Fields {
			p = append(p, f.String())
		}
		return "{" + strings.Join(p, ",") + "}"
	case KLoc:
		return fmt.Sprintf("loc(%s,%s,%s)", v.Loc.Comp, v.Loc.Ref, v.Loc.Idx)
	}
	return v.A
}

// ---------------- SMT context ----------------

type Ctx struct {
	cuts     []int // assertion indices at which a cut hides earlier loop-local facts
	qdepth   int   // nesting depth of spec quantifiers (names of bound variables)
	decls    []string
	declared map[string]string // name -> sort
	asserts  []assertion
	fresh    int
	obls     []*Obligation
	uf       map[string]bool
	notes    []string
}

type assertion struct {
	term      string
	comment   string
	hideAfter int // > 0: not shown to obligations generated after this assertion index (facts local to a loop that ends in a cut)
}

// cutBetween: some assertion becomes hidden for obligations generated in (lo, hi]
func (c *Ctx) cutBetween(lo, hi int) bool {
	for _, h := range c.cuts {
		if lo <= h && h < hi {
			return true
		}
	}
	return false
}

// visible: assertion k is part of the hypotheses of an obligation generated at index n
func (c *Ctx) visible(k int, n int) bool {
	h := c.asserts[k].hideAfter
	return k < n && !(h > 0 && n > h)
}

func newCtx() *Ctx {
	return &Ctx{declared: map[string]string{}, uf: map[string]bool{}}
}

func sym(name string) string {
	simple := true
	for _, c := range name {
		if !(c >= 'a' && c <= 'z' || c >= 'A' && c <= 'Z' || c >= '0' && c <= '9' || c == '_' || c == '.' || c == '$' || c == '!' || c == '@' || c == '#') {
			simple = false
			break
		}
	}
	if simple && name != "" && !(name[0] >= '0' && name[0] <= '9') && name[0] != '@' && name[0] != '.' {
		return name
	}
	return "|" + strings.NewReplacer("|", "!", "\\", "!").Replace(name) + "|"
}

func (c *Ctx) declare(name, sort string) Term {
	s := sym(name)
	if old, ok := c.declared[s]; ok {
		if old != sort {
			panic(fmt.Sprintf("symbol %s redeclared with sort %s (was %s)", s, sort, old))
		}
		return s
	}
	c.declared[s] = sort
	c.decls = append(c.decls, fmt.Sprintf("(declare-const %s %s)", s, sort))
	return s
}

func (c *Ctx) declareFun(name string, args []string, res string) string {
	s := sym(name)
	sig := strings.Join(args, " ") + "->" + res
	if old, ok := c.declared[s]; ok {
		if old != sig {
			panic(fmt.Sprintf("function %s redeclared: %s vs %s", s, sig, old))
		}
		return s
	}
	c.declared[s] = sig
	c.decls = append(c.decls, fmt.Sprintf("(declare-fun %s (%s) %s)", s, strings.Join(args, " "), res))
	return s
}

func (c *Ctx) freshName(hint string) string {
	c.fresh++
	return fmt.Sprintf("%s!%d", hint, c.fresh)
}

func (c *Ctx) freshConst(hint, sort string) Term {
	return c.declare(c.freshName(hint), sort)
}

func (c *Ctx) assert(t Term, comment string) {
	if t == "true" {
		return
	}
	c.asserts = append(c.asserts, assertion{term: t, comment: comment})
}

// ---------------- term helpers ----------------

func and(ts ...Term) Term {
	var out []Term
	for _, t := range ts {
		if t == "true" || t == "" {
			continue
		}
		if t == "false" {
			return "false"
		}
		out = append(out, t)
	}
	switch len(out) {
	case 0:
		return "true"
	case 1:
		return out[0]
	}
	return "(and " + strings.Join(out, " ") + ")"
}

func or(ts ...Term) Term {
	var out []Term
	for _, t := range ts {
		if t == "false" || t == "" {
			continue
		}
		if t == "true" {
			return "true"
		}
		out = append(out, t)
	}
	switch len(out) {
	case 0:
		return "false"
	case 1:
		return out[0]
	}
	return "(or " + strings.Join(out, " ") + ")"
}

func not(t Term) Term {
	switch t {
	case "true":
		return "false"
	case "false":
		return "true"
	}
	if strings.HasPrefix(t, "(not ") && balanced(t[5:len(t)-1]) {
		return t[5 : len(t)-1]
	}
	return "(not " + t + ")"
}

func balanced(s string) bool {
	d := 0
	inq := false
	for _, c := range s {
		if c == '|' {
			inq = !inq
		}
		if inq {
			continue
		}
		if c == '(' {
			d++
		} else if c == ')' {
			d--
			if d < 0 {
				return false
			}
		}
	}
	return d == 0
}

func implies(a, b Term) Term {
	if a == "true" {
		return b
	}
	if a == "false" || b == "true" {
		return "true"
	}
	return "(=> " + a + " " + b + ")"
}

func eq(a, b Term) Term {
	if a == b {
		return "true"
	}
	return "(= " + a + " " + b + ")"
}

func ite(c, a, b Term) Term {
	if c == "true" {
		return a
	}
	if c == "false" {
		return b
	}
	if a == b {
		return a
	}
	return "(ite " + c + " " + a + " " + b + ")"
}

func app(f string, args ...Term) Term {
	if len(args) == 0 {
		return f
	}
	return "(" + f + " " + strings.Join(args, " ") + ")"
}

func num(n int64) Term {
	if n < 0 {
		return fmt.Sprintf("(- %d)", -n)
	}
	return fmt.Sprintf("%d", n)
}

func numBig(n *big.Int) Term {
	if n.Sign() < 0 {
		return "(- " + new(big.Int).Neg(n).String() + ")"
	}
	return n.String()
}

func sel(a, i Term) Term      { return "(select " + a + " " + i + ")" }
func store(a, i, v Term) Term { return "(store " + a + " " + i + " " + v + ")" }
func add(a, b Term) Term {
	if b == "0" {
		return a
	}
	if a == "0" {
		return b
	}
	return "(+ " + a + " " + b + ")"
}
func sub(a, b Term) Term {
	if b == "0" {
		return a
	}
	if a == b {
		return "0"
	}
	return "(- " + a + " " + b + ")"
}
func le(a, b Term) Term { return "(<= " + a + " " + b + ")" }
func lt(a, b Term) Term { return "(< " + a + " " + b + ")" }

const maxLenTerm = "281474976710656" // 2^48: addressable memory bound (stated assumption)

// ---------------- integer ranges ----------------

func intRange(t types.Type) (lo, hi *big.Int, ok bool) {
	b, isb := t.Underlying().(*types.Basic)
	if !isb {
		return nil, nil, false
	}
	p := func(bits uint, signed bool) (*big.Int, *big.Int, bool) {
		if signed {
			h := new(big.Int).Lsh(big.NewInt(1), bits-1)
			return new(big.Int).Neg(h), new(big.Int).Sub(h, big.NewInt(1)), true
		}
		h := new(big.Int).Lsh(big.NewInt(1), bits)
		return big.NewInt(0), new(big.Int).Sub(h, big.NewInt(1)), true
	}
	switch b.Kind() {
	case types.Int, types.Int64:
		return p(64, true)
	case types.Int32:
		return p(32, true)
	case types.Int16:
		return p(16, true)
	case types.Int8:
		return p(8, true)
	case types.Uint, types.Uint64, types.Uintptr:
		return p(64, false)
	case types.Uint32:
		return p(32, false)
	case types.Uint16:
		return p(16, false)
	case types.Uint8:
		return p(8, false)
	case types.UntypedInt, types.UntypedRune:
		return nil, nil, false
	}
	return nil, nil, false
}

func rangeAssump(t types.Type, x Term) Term {
	lo, hi, ok := intRange(t)
	if !ok {
		return "true"
	}
	return and(le(numBig(lo), x), le(x, numBig(hi)))
}

func isUnsigned(t types.Type) bool {
	b, ok := t.Underlying().(*types.Basic)
	return ok && b.Info()&types.IsUnsigned != 0
}

// ---------------- sorts / kinds for Go types ----------------

func kindOf(t types.Type) Kind {
	switch u := t.Underlying().(type) {
	case *types.Basic:
		switch {
		case u.Info()&types.IsBoolean != 0:
			return KBool
		case u.Info()&types.IsString != 0:
			return KStr
		case u.Info()&types.IsInteger != 0:
			return KInt
		case u.Kind() == types.UnsafePointer:
			return KIface
		case u.Kind() == types.UntypedNil:
			return KIface
		case u.Info()&types.IsFloat != 0:
			return KIface // floats are opaque
		}
		return KIface
	case *types.Pointer:
		switch u.Elem().Underlying().(type) {
		case *types.Struct:
			return KRef
		case *types.Array:
			return KArr
		}
		return KLoc
	case *types.Slice:
		return KSlice
	case *types.Struct:
		return KStruct
	case *types.Tuple:
		return KTuple
	case *types.Interface:
		return KIface
	case *types.Signature:
		return KFunc
	case *types.Map:
		return KMap
	case *types.Array:
		return KArr
	case *types.Chan:
		return KIface
	}
	return KIface
}

// scalarSort returns the SMT sort for scalar-kinded types.
func scalarSort(t types.Type) string {
	switch kindOf(t) {
	case KBool:
		return "Bool"
	case KStr:
		return "Str"
	}
	return "Int"
}

// typeName gives a stable printable name for a type (used in component names).
func typeName(t types.Type) string {
	return types.TypeString(t, func(p *types.Package) string { return p.Name() })
}

// ---------------- heap state ----------------

type baseKind int

const (
	bEntry baseKind = iota
	bMerge
	bHavoc
)

type mergeIn struct {
	cond Term
	st   *State
}

type havocMode int

const (
	hvNone havocMode = iota // unchanged
	hvAll                   // whole component arbitrary
	hvRefs                  // arbitrary at the listed refs (and at refs >= nxtPre if fresh), unchanged elsewhere
)

type havocSpec struct {
	mode  havocMode
	refs  []Term // refs whose slot may change (hvRefs)
	fresh bool   // slots of objects allocated after nxtPre may change too
}

type Base struct {
	kind   baseKind
	id     int
	preds  []mergeIn
	from   *State
	nxtPre Term
	mod    func(comp string) havocSpec
	cache  map[string]Term
	tag    string
}

type State struct {
	over map[string]Term
	base *Base
	nxt  Term
}

func (c *Ctx) entryState() *State {
	nxt := c.declare("nxt@0", "Int")
	c.assert(and(lt("0", nxt), le(nxt, maxLenTerm)), "allocation counter")
	return &State{over: map[string]Term{}, base: &Base{kind: bEntry, cache: map[string]Term{}}, nxt: nxt}
}

func (s *State) with(comp string, t Term) *State {
	m := make(map[string]Term, len(s.over)+1)
	for k, v := range s.over {
		m[k] = v
	}
	m[comp] = t
	return &State{over: m, base: s.base, nxt: s.nxt}
}

func (s *State) withNxt(n Term) *State {
	return &State{over: s.over, base: s.base, nxt: n}
}

// compSorts records the SMT sort of each component (filled on first use).
type compTable struct {
	sorts map[string]string
}

func (c *Ctx) get(s *State, comp, sort string) Term {
	if t, ok := s.over[comp]; ok {
		return t
	}
	return c.resolve(s.base, comp, sort)
}

func (c *Ctx) resolve(b *Base, comp, sort string) Term {
	if t, ok := b.cache[comp]; ok {
		return t
	}
	var res Term
	switch b.kind {
	case bEntry:
		res = c.declare(comp+"@0", sort)
	case bMerge:
		var ts []Term
		same := true
		for _, p := range b.preds {
			t := c.get(p.st, comp, sort)
			ts = append(ts, t)
			if t != ts[0] {
				same = false
			}
		}
		if same {
			res = ts[0]
		} else {
			res = c.declare(fmt.Sprintf("%s@m%d", comp, b.id), sort)
			for i, p := range b.preds {
				c.assert(implies(p.cond, eq(res, ts[i])), "merge "+comp)
			}
		}
	case bHavoc:
		hs := b.mod(comp)
		prev := c.get(b.from, comp, sort)
		switch hs.mode {
		case hvNone:
			res = prev
		case hvAll:
			res = c.declare(fmt.Sprintf("%s@h%d", comp, b.id), sort)
		case hvRefs:
			if !strings.HasPrefix(sort, "(Array") {
				// global scalar: just havoc
				res = c.declare(fmt.Sprintf("%s@h%d", comp, b.id), sort)
				break
			}
			res = c.declare(fmt.Sprintf("%s@h%d", comp, b.id), sort)
			conds := []Term{}
			if hs.fresh {
				conds = append(conds, lt("r!", b.nxtPre))
			}
			for _, r := range hs.refs {
				conds = append(conds, not(eq("r!", r)))
			}
			c.assert(fmt.Sprintf("(forall ((r! Int)) (! %s :pattern (%s)))",
				implies(and(conds...), eq(sel(res, "r!"), sel(prev, "r!"))), sel(res, "r!")), "frame "+comp+" "+b.tag)
		}
	}
	b.cache[comp] = res
	return res
}

var baseCounter int

func mergeStates(c *Ctx, ins []mergeIn) *State {
	if len(ins) == 1 {
		return ins[0].st
	}
	baseCounter++
	b := &Base{kind: bMerge, id: baseCounter, preds: ins, cache: map[string]Term{}}
	// allocation counter
	nxt := ins[0].st.nxt
	same := true
	for _, p := range ins {
		if p.st.nxt != nxt {
			same = false
		}
	}
	if !same {
		nxt = c.freshConst("nxt", "Int")
		for _, p := range ins {
			c.assert(implies(p.cond, eq(nxt, p.st.nxt)), "merge nxt")
		}
	}
	return &State{over: map[string]Term{}, base: b, nxt: nxt}
}

func havocState(c *Ctx, from *State, tag string, mod func(comp string) havocSpec, allocates bool) *State {
	baseCounter++
	b := &Base{kind: bHavoc, id: baseCounter, from: from, mod: mod, cache: map[string]Term{}, nxtPre: from.nxt, tag: tag}
	nxt := from.nxt
	if allocates {
		nxt = c.freshConst("nxt", "Int")
		c.assert(and(le(from.nxt, nxt), le(nxt, maxLenTerm)), "alloc monotone "+tag)
	}
	return &State{over: map[string]Term{}, base: b, nxt: nxt}
}

// ---------------- obligations ----------------

type Obligation struct {
	Name      string // pkg.func#kind[label]
	Func      string
	Kind      string
	Props     []string
	Goal      Term // must be valid under asserts[:N]
	N         int
	Text      string // source text
	Pos       string
	Canary    bool
	Bounded   string
	ModelVars []modelVar
	// results
	Status string // discharged | refuted | unknown | error
	Solver string
	Time   float64
	Model  map[string]string
	Output string
}

type modelVar struct {
	Name   string
	Term   Term
	Path   string // access path in the contract's parameter names (entry state)
	Role   string // scalar | ptr | len | elem | strlen | strbyte
	GoType string // Go type of the path (scalar/ptr) or of the slice (len/elem)
	Index  int
}

func (c *Ctx) oblige(o *Obligation) {
	o.N = len(c.asserts)
	c.obls = append(c.obls, o)
}

// scriptSliced is the query with every quantified assumption dropped. Dropping assumptions is sound
// (a proof from fewer hypotheses is still a proof); most safety and frame obligations discharge this way
// in milliseconds, independent of how many quantified facts the function carries.
func (c *Ctx) scriptSliced(o *Obligation) string {
	var sb strings.Builder
	sb.WriteString("; obligation " + o.Name + " (quantifier-free slice of the assumptions)\n")
	sb.WriteString("(declare-sort Str 0)\n")
	for _, d := range c.decls {
		sb.WriteString(d + "\n")
	}
	for k, a := range c.asserts[:o.N] {
		if strings.Contains(a.term, "(forall ") || strings.Contains(a.term, "(exists ") || !c.visible(k, o.N) {
			continue
		}
		sb.WriteString("(assert " + a.term + ")\n")
	}
	sb.WriteString("(assert (not " + o.Goal + "))\n(check-sat)\n")
	return sb.String()
}

func (c *Ctx) script(o *Obligation, timeoutMs int, logic string) string {
	var sb strings.Builder
	sb.WriteString("; obligation " + o.Name + "\n")
	if logic != "" {
		sb.WriteString("(set-logic " + logic + ")\n")
	}
	sb.WriteString("(declare-sort Str 0)\n")
	for _, d := range c.decls {
		sb.WriteString(d + "\n")
	}
	for k, a := range c.asserts[:o.N] {
		if os.Getenv("GOVC_DEBUG") != "" && strings.Contains(a.comment, "ensures of sort.Sort") {
			fmt.Printf("debug script %s k=%d hide=%d N=%d visible=%v\n", o.Name, k, a.hideAfter, o.N, c.visible(k, o.N))
		}
		if !c.visible(k, o.N) {
			continue
		}
		if a.comment != "" {
			sb.WriteString("; " + a.comment + "\n")
		}
		sb.WriteString("(assert " + a.term + ")\n")
	}
	sb.WriteString("; goal: " + strings.ReplaceAll(o.Text, "\n", " ") + "\n")
	sb.WriteString("(assert (not " + o.Goal + "))\n")
	sb.WriteString("(check-sat)\n")
	if len(o.ModelVars) > 0 {
		var ts []string
		for _, mv := range o.ModelVars {
			ts = append(ts, mv.Term)
		}
		sb.WriteString("(get-value (" + strings.Join(ts, " ") + "))\n")
	}
	return sb.String()
}

func sortedKeys(m map[string]bool) []string {
	var ks []string
	for k := range m {
		ks = append(ks, k)
	}
	sort.Strings(ks)
	return ks
}
