package main

import (
	"encoding/json"
	"flag"
	"fmt"
	"math/rand"
	"os"
	"path/filepath"
	"sort"
	"strconv"
	"strings"
	"time"
)

type KnownFinding struct {
	Property   string `json:"property"`
	Obligation string `json:"obligation"`
	What       string `json:"what"`
	Witness    string `json:"witness"`
	Status     string `json:"status"` // open | fixed
	Commit     string `json:"commit,omitempty"`
}

type KnownFile struct {
	Findings []KnownFinding `json:"findings"`
	Fixed    []string       `json:"fixed"`
}

func main() {
	if len(os.Args) < 2 {
		fmt.Fprintln(os.Stderr, "usage: govc check|func|list ...")
		os.Exit(2)
	}
	switch os.Args[1] {
	case "check":
		os.Exit(cmdCheck(os.Args[2:]))
	case "func":
		os.Exit(cmdFunc(os.Args[2:]))
	case "names":
		os.Exit(cmdNames(os.Args[2:]))
	case "list":
		os.Exit(cmdList(os.Args[2:]))
	case "replay":
		os.Exit(cmdReplay(os.Args[2:]))
	}
	fmt.Fprintln(os.Stderr, "unknown command")
	os.Exit(2)
}

func hasProp(ps []string, p string) bool {
	for _, x := range ps {
		if x == p {
			return true
		}
	}
	return false
}

func cmdList(args []string) int {
	fs := flag.NewFlagSet("list", flag.ExitOnError)
	repo := fs.String("repo", "/repo", "repository")
	fs.Parse(args)
	v, err := loadProgram(*repo)
	if err != nil {
		fmt.Fprintln(os.Stderr, err)
		return 2
	}
	var keys []string
	for k := range v.contracts.Funcs {
		keys = append(keys, k)
	}
	sort.Strings(keys)
	for _, k := range keys {
		c := v.contracts.Funcs[k]
		_, found := v.funcs[k]
		fmt.Printf("%-70s props=%v inline=%v trusted=%v lib=%v found=%v\n", k, c.Props, c.Inline, c.Trusted, c.Lib, found)
	}
	return 0
}

// cmdNames prints, for every function under contract, its local variables (name, type) in declaration order.
// The output is committed as lib/names.json and lets a contract survive the renaming of a local variable.
func cmdNames(args []string) int {
	fs := flag.NewFlagSet("names", flag.ExitOnError)
	repo := fs.String("repo", "/repo", "repository")
	fs.Parse(args)
	v, err := loadProgram(*repo)
	if err != nil {
		fmt.Fprintln(os.Stderr, err)
		return 2
	}
	out := map[string][][2]string{}
	for k, c := range v.contracts.Funcs {
		fn := v.funcs[k]
		if fn == nil || c.Trusted || c.Lib || len(fn.Blocks) == 0 {
			continue
		}
		fr := v.newFrame(fn, c, true)
		fr.collectDebug()
		out[k] = fr.localOrder()
	}
	data, _ := json.MarshalIndent(out, "", " ")
	fmt.Println(string(data))
	return 0
}

func cmdFunc(args []string) int {
	fs := flag.NewFlagSet("func", flag.ExitOnError)
	repo := fs.String("repo", "/repo", "repository")
	to := fs.Int("timeout", 10, "per-obligation timeout (s)")
	dump := fs.String("dump", "", "directory to keep SMT files")
	only := fs.String("only", "", "substring filter on obligation names")
	fs.Parse(args)
	v, err := loadProgram(*repo)
	if err != nil {
		fmt.Fprintln(os.Stderr, err)
		return 2
	}
	rc := 0
	for _, key := range fs.Args() {
		res := v.verifyFunction(key)
		if res.Err != "" {
			fmt.Printf("ERROR %s: %s\n", key, res.Err)
			rc = 2
			continue
		}
		dir := *dump
		if dir == "" {
			dir, _ = os.MkdirTemp("", "govc")
			defer os.RemoveAll(dir)
		} else {
			os.MkdirAll(dir, 0o755)
			os.Setenv("GOVC_KEEP", "1")
		}
		var jobs []job
		for i, o := range res.Obligations {
			if *only != "" && !strings.Contains(o.Name, *only) {
				continue
			}
			jobs = append(jobs, job{res.Ctx, o, i})
		}
		solveAll(jobs, solveOpts{dir: dir, timeout: time.Duration(*to) * time.Second, canaryTO: 3 * time.Second}, 16)
		for _, j := range jobs {
			o := j.o
			mark := "ok  "
			if o.Status == "error" {
				mark = "SOLVER-ERROR"
				rc = 2
				fmt.Printf("%-10s %s %s\n", mark, o.Name, oneLine(o.Output))
				continue
			}
			if o.Canary {
				if o.Status == "discharged" {
					mark = "VACUOUS"
					rc = 1
				} else {
					mark = "ok(canary)"
				}
			} else if o.Status != "discharged" {
				mark = "FAIL"
				rc = 1
			}
			fmt.Printf("%-10s %-11s %-7s %6.2fs  o%05d %s   -- %s\n", mark, o.Status, o.Solver, o.Time, j.idx, o.Name, oneLine(o.Text))
			if o.Status == "refuted" && !o.Canary && o.Model != nil {
				fmt.Printf("           model: %v\n", o.Model)
			}
		}
	}
	var notes []string
	for n := range v.notes {
		notes = append(notes, n)
	}
	sort.Strings(notes)
	for _, n := range notes {
		fmt.Println("note:", n)
	}
	return rc
}

func oneLine(s string) string {
	s = strings.Join(strings.Fields(s), " ")
	if len(s) > 110 {
		s = s[:110] + "…"
	}
	return s
}

type evidence struct {
	PropertyID  string                 `json:"property_id"`
	Tier        string                 `json:"tier"`
	Seed        int                    `json:"seed"`
	Level       string                 `json:"level"`
	Coverage    map[string]interface{} `json:"coverage"`
	Assumptions []string               `json:"assumptions"`
	WallS       float64                `json:"wall_s"`
	Violations  int                    `json:"violations"`
}

func cmdCheck(args []string) int {
	fs := flag.NewFlagSet("check", flag.ExitOnError)
	repo := fs.String("repo", "/repo", "repository")
	prop := fs.String("prop", "", "property id")
	tier := fs.String("tier", "quick", "quick|thorough")
	evPath := fs.String("evidence", "", "evidence file")
	knownPath := fs.String("known", "", "known findings file")
	replayDir := fs.String("replays", "", "replay directory")
	extraJSON := fs.String("extra", "", "JSON file with extra coverage entries (bounded stand-ins etc.) merged into the evidence")
	fs.Parse(args)
	t0 := time.Now()
	seed := 0
	if s := os.Getenv("VERIF_SEED"); s != "" {
		seed, _ = strconv.Atoi(s)
	}
	v, err := loadProgram(*repo)
	if err != nil {
		fmt.Fprintln(os.Stderr, "engine error:", err)
		return 2
	}
	var known KnownFile
	if *knownPath != "" {
		if data, err := os.ReadFile(*knownPath); err == nil {
			if err := json.Unmarshal(data, &known); err != nil {
				fmt.Fprintln(os.Stderr, "engine error: known findings file:", err)
				return 2
			}
		}
	}
	var keys []string
	for k, c := range v.contracts.Funcs {
		if c.Lib || c.Inline && len(c.Ensures) == 0 && len(c.Requires) == 0 {
			continue
		}
		if c.Trusted {
			continue
		}
		if hasProp(c.Props, *prop) || clauseHasProp(c, *prop) || *prop == "C10" {
			// C10 (no panics) is decided by the automatic safety obligations of every function under contract
			keys = append(keys, k)
		}
	}
	sort.Strings(keys)
	timeout := time.Duration(20*cpuFactor()) * time.Second
	if *tier == "thorough" {
		timeout = time.Duration(90*cpuFactor()) * time.Second
	}
	dir, _ := os.MkdirTemp("", "govc")
	defer os.RemoveAll(dir)
	var jobs []job
	var engineErrs []string
	var mismatch []*Obligation
	nfun := 0
	var funcsUnder []string
	for _, k := range keys {
		res := v.verifyFunction(k)
		if res.Err != "" {
			// The contract no longer fits the code (renamed variable, changed loop structure, missing function...):
			// its obligations, which are discharged on the unchanged tree, cannot even be generated. Reported as a
			// failed obligation "<func>#contract-applies".
			o := &Obligation{Name: k + "#contract-applies", Func: k, Kind: "contract-applies", Props: []string{*prop},
				Text: "the contract of " + k + " can be applied to the function's current code", Status: "unknown", Output: res.Err}
			mismatch = append(mismatch, o)
			continue
		}
		nfun++
		funcsUnder = append(funcsUnder, k)
		for i, o := range res.Obligations {
			if hasProp(o.Props, *prop) {
				jobs = append(jobs, job{res.Ctx, o, len(jobs)*0 + i + nfun*100000})
				v.ctxOf[o] = res.Ctx
			}
		}
	}
	tEnc := time.Since(t0).Seconds()
	solveAll(jobs, solveOpts{dir: dir, timeout: timeout, canaryTO: 3 * time.Second, all: *tier == "thorough"}, 16)
	tSolve := time.Since(t0).Seconds() - tEnc
	fmt.Printf("timing: load+encode %.1fs, solve %.1fs\n", tEnc, tSolve)
	// thorough tier: every discharged obligation is put, stand-alone, to two independent solvers (cvc5 and z3 4.8).
	// An answer "sat" from either contradicts the proof: that is an engine error (never a property verdict).
	cross := map[string]int{}
	var crossDisagree []string
	if *tier == "thorough" {
		tc := time.Now()
		cross, crossDisagree = crossCheck(jobs, dir, 16)
		fmt.Printf("timing: cross-check %.1fs (%v)\n", time.Since(tc).Seconds(), cross)
		for _, d := range crossDisagree {
			engineErrs = append(engineErrs, "solver disagreement: "+d)
		}
	}

	// classify
	nObl, nDis, nCan, nCanOK := 0, 0, 0, 0
	bySolver := map[string]int{}
	solverTime := 0.0
	var failed []*Obligation
	var vacuous []*Obligation
	var samples []map[string]interface{}
	for _, j := range jobs {
		o := j.o
		solverTime += o.Time
		if o.Status == "error" {
			engineErrs = append(engineErrs, "solver error on "+o.Name+": "+oneLine(o.Output))
			continue
		}
		if o.Canary {
			nCan++
			if o.Status == "discharged" {
				vacuous = append(vacuous, o)
			} else {
				nCanOK++
			}
			continue
		}
		nObl++
		if o.Status == "discharged" {
			nDis++
			bySolver[o.Solver]++
			if len(samples) < 8 {
				samples = append(samples, map[string]interface{}{"obligation": o.Name, "text": oneLine(o.Text), "verdict": "unsat", "solver": o.Solver, "seconds": round3(o.Time)})
			}
		} else {
			failed = append(failed, o)
		}
	}
	// slowest obligations (stability margin against the per-obligation timeout)
	var slow []map[string]interface{}
	{
		var all []*Obligation
		for _, j := range jobs {
			if !j.o.Canary {
				all = append(all, j.o)
			}
		}
		sort.Slice(all, func(a, b int) bool { return all[a].Time > all[b].Time })
		for k := 0; k < len(all) && k < 5; k++ {
			slow = append(slow, map[string]interface{}{"obligation": all[k].Name, "seconds": round3(all[k].Time), "solver": all[k].Solver, "status": all[k].Status})
		}
	}
	rc := 0
	violations := 0
	var knownHit []string
	var openFailed []string
	failed = append(failed, mismatch...)
	nObl += len(mismatch)
	for _, o := range failed {
		if kf := matchKnown(known, *prop, o.Name); kf != nil {
			fmt.Printf("KNOWN-FINDING: property=%s %s %s\n", *prop, o.Name, kf.What)
			knownHit = append(knownHit, o.Name)
			continue
		}
		violations++
		rp := writeReplay(*replayDir, *prop, o, v)
		suffix := " replayed=confirmed"
		if !strings.Contains(rp.outcome, "confirmed") {
			suffix = " no-failing-input-found"
		}
		fmt.Printf("VIOLATION property=%s replay=%s obligation=%s status=%s%s\n", *prop, rp.path, o.Name, o.Status, suffix)
		openFailed = append(openFailed, o.Name)
		rc = 1
	}
	for _, o := range vacuous {
		fmt.Printf("ENGINE-ERROR vacuity: canary/cover %s was proved (contradictory assumptions)\n", o.Name)
		rc = 2
	}
	for _, e := range engineErrs {
		fmt.Printf("ENGINE-ERROR %s\n", e)
		if rc == 0 {
			rc = 2
		}
	}
	if nObl == 0 && rc == 0 {
		fmt.Printf("ENGINE-ERROR no obligations generated for %s\n", *prop)
		rc = 2
	}
	// evidence
	level := "proof"
	if nDis != nObl {
		level = "other"
	}
	var trusted []string
	trusted = append(trusted, "govc VC generator (SSA->SMT translation, loop cutting, frame computation)", "go/ssa, go/types (x/tools v0.50.0)", "SMT solvers z3 5.1.0 / z3 4.8.12 / cvc5 1.0.3",
		"heap model: lengths and allocation counter <= 2^48, heap closed under allocation", "Go compiler and runtime")
	var tkeys []string
	for k := range v.trustedUsed {
		tkeys = append(tkeys, k)
	}
	sort.Strings(tkeys)
	for _, k := range tkeys {
		trusted = append(trusted, "trusted contract: "+k+" ("+v.trustedUsed[k]+")")
	}
	var axs []string
	for k := range v.axiomsUsed {
		axs = append(axs, k)
	}
	sort.Strings(axs)
	for _, a := range axs {
		trusted = append(trusted, "axiom: "+a)
	}
	var assumptions []string
	var ak []string
	for k := range v.assumedCallees {
		ak = append(ak, k)
	}
	sort.Strings(ak)
	for _, k := range ak {
		assumptions = append(assumptions, "callee without contract, assumed panic-free and havoced per mod-set analysis: "+k)
	}
	var mk []string
	for k := range v.assumeMath {
		mk = append(mk, k)
	}
	sort.Strings(mk)
	if len(mk) > 0 {
		assumptions = append(assumptions, "signed int/int64 arithmetic treated as mathematical (no overflow obligations) in: "+strings.Join(mk, ", "))
	}
	var nk []string
	for k := range v.notes {
		nk = append(nk, k)
	}
	sort.Strings(nk)
	for _, n := range nk {
		assumptions = append(assumptions, "note: "+n)
	}
	var ik []string
	for k := range v.inlined {
		ik = append(ik, k)
	}
	sort.Strings(ik)
	cov := map[string]interface{}{
		"obligations":              nObl,
		"discharged":               nDis,
		"checker_cmd":              fmt.Sprintf("govc check -repo %s -prop %s -tier %s (z3-new -T:%d, fallback cvc5 + z3)", *repo, *prop, *tier, int(timeout.Seconds())),
		"trusted_base":             trusted,
		"functions_under_contract": funcsUnder,
		"functions_inlined":        ik,
		"by_solver":                bySolver,
		"solver_time_s":            round3(solverTime),
		"canaries_and_covers":      nCan,
		"canaries_refuted":         nCanOK,
		"known_findings_hit":       knownHit,
		"failed_obligations":       openFailed,
		"engine_errors":            engineErrs,
		"samples":                  samples,
		"slowest_obligations":      slow,
		"per_obligation_timeout_s": int(timeout.Seconds()),
	}
	if *tier == "thorough" {
		cov["cross_check"] = map[string]interface{}{"what": "each discharged obligation re-submitted stand-alone to cvc5 1.0.3 and z3 4.8.12 (3 s each); 'sat' would be a disagreement", "verdicts": cross, "disagreements": crossDisagree}
	}
	if *extraJSON != "" {
		if data, err := os.ReadFile(*extraJSON); err == nil {
			var extra map[string]interface{}
			if json.Unmarshal(data, &extra) == nil {
				for k, val := range extra {
					cov[k] = val
				}
			}
		}
	}
	if level == "other" {
		cov["explanation"] = fmt.Sprintf("%d of %d obligations discharged; undischarged obligations are listed under failed_obligations / known_findings_hit, so this run is not a complete proof", nDis, nObl)
	}
	ev := evidence{PropertyID: *prop, Tier: *tier, Seed: seed, Level: level, Coverage: cov, Assumptions: assumptions, WallS: round3(time.Since(t0).Seconds()), Violations: violations}
	if *evPath != "" {
		os.MkdirAll(filepath.Dir(*evPath), 0o755)
		data, _ := json.MarshalIndent(ev, "", " ")
		os.WriteFile(*evPath, data, 0o644)
	}
	fmt.Printf("property %s: %d functions, %d obligations, %d discharged, %d canaries refuted of %d, %d violations, %d known findings, %.1fs\n",
		*prop, nfun, nObl, nDis, nCanOK, nCan, violations, len(knownHit), time.Since(t0).Seconds())
	return rc
}

func clauseHasProp(c *Contract, p string) bool {
	for _, cl := range c.Ensures {
		if hasProp(cl.Props, p) {
			return true
		}
	}
	for _, l := range c.Loops {
		for _, cl := range l.Invariants {
			if hasProp(cl.Props, p) {
				return true
			}
		}
	}
	return false
}

func round3(f float64) float64 { return float64(int(f*1000+0.5)) / 1000 }

func matchKnown(k KnownFile, prop, obl string) *KnownFinding {
	for i := range k.Findings {
		f := &k.Findings[i]
		if f.Status == "fixed" {
			continue
		}
		if f.Property == prop && oblMatches(f.Obligation, obl) {
			return f
		}
	}
	return nil
}

// oblMatches: exact name, or pattern with trailing '*'.
func oblMatches(pat, name string) bool {
	if strings.HasSuffix(pat, "*") {
		return strings.HasPrefix(name, strings.TrimSuffix(pat, "*"))
	}
	return pat == name
}

type replayResult struct {
	path    string
	outcome string
}

func writeReplay(dir, prop string, o *Obligation, v *Verifier) replayResult {
	if dir == "" {
		dir = "replays"
	}
	pdir := filepath.Join(dir, prop)
	os.MkdirAll(pdir, 0o755)
	name := strings.NewReplacer("/", "_", "(", "", ")", "", "*", "", "#", "-", "[", "-", "]", "", ";", "-", " ", "", ":", "-", "@", "-").Replace(o.Name)
	path := filepath.Join(pdir, name+".json")
	rp := map[string]interface{}{
		"property":      prop,
		"obligation":    o.Name,
		"kind":          o.Kind,
		"clause":        o.Text,
		"position":      o.Pos,
		"status":        o.Status,
		"solver":        o.Solver,
		"solver_output": o.Output,
		"model":         o.Model,
	}
	outcome := "no-failing-input-found"
	if o.Status == "refuted" && o.Model != nil {
		res := v.replayModel(o)
		rp["replay"] = res
		if res != nil && res["outcome"] == "confirmed" {
			outcome = "confirmed"
		}
	} else if c := v.ctxOf[o]; c != nil {
		// no model from the solver (quantified query): try a candidate from the quantifier-free relaxation
		tmp, _ := os.MkdirTemp("", "govc-relax")
		if m := relaxedModel(c, o, tmp); m != nil {
			o.Model = m
			rp["model"] = m
			rp["model_note"] = "candidate from the quantifier-free relaxation of the query; only meaningful if it replays"
			res := v.replayModel(o)
			rp["replay"] = res
			if res != nil && res["outcome"] == "confirmed" {
				outcome = "confirmed"
			}
		}
		os.RemoveAll(tmp)
	}
	if outcome != "confirmed" && len(o.ModelVars) > 0 && witnessBudget > 0 {
		// witness search: a few random small inputs in the shape of the function's parameters, each replayed on the
		// real code with the violated clause as the test; the first input on which the clause fails is recorded
		witnessBudget--
		seed := int64(1)
		fmt.Sscanf(os.Getenv("VERIF_SEED"), "%d", &seed)
		rng := rand.New(rand.NewSource(seed*7919 + int64(len(o.Name))))
		saved := o.Model
		deadline := time.Now().Add(45 * time.Second)
		tried := 0
		for k := 0; k < 24 && time.Now().Before(deadline); k++ {
			o.Model = randomModel(o, rng)
			res := v.replayModel(o)
			tried++
			if res != nil && res["outcome"] == "confirmed" {
				outcome = "confirmed"
				rp["model"] = o.Model
				rp["model_note"] = "input found by the random witness search (not a solver model)"
				rp["replay"] = res
				break
			}
		}
		rp["witness_search"] = fmt.Sprintf("%d random inputs tried", tried)
		if outcome != "confirmed" {
			o.Model = saved
		}
	}
	rp["outcome"] = outcome
	data, _ := json.MarshalIndent(rp, "", " ")
	os.WriteFile(path, data, 0o644)
	return replayResult{path, outcome}
}

// at most this many violated obligations per run get a witness search (each costs up to 45 s)
var witnessBudget = 3

// randomModel: small values in the roles the replay generator understands.
func randomModel(o *Obligation, rng *rand.Rand) map[string]string {
	ints := []int64{-1, 0, 0, 1, 1, 2, 3, 4, 5, 7, 8, 63, 64, 127, 128, 255, 256, 1000}
	runes := []int64{0, 9, 10, 32, 36, 45, 48, 57, 65, 66, 90, 97, 98, 122, 123, 127, 128, 233, 256, 0x212A, 0xFFFD, 0x10000, 0x10FFFF}
	m := map[string]string{}
	lens := map[string]int64{}
	for _, mv := range o.ModelVars {
		switch mv.Role {
		case "len", "strlen":
			n := int64(rng.Intn(6))
			lens[mv.Path] = n
			m[mv.Name] = fmt.Sprint(n)
		}
	}
	for _, mv := range o.ModelVars {
		switch mv.Role {
		case "scalar":
			if mv.GoType == "bool" {
				m[mv.Name] = fmt.Sprint(rng.Intn(2) == 0)
			} else if strings.Contains(mv.GoType, "rune") || mv.GoType == "int32" {
				m[mv.Name] = fmt.Sprint(runes[rng.Intn(len(runes))])
			} else {
				m[mv.Name] = fmt.Sprint(ints[rng.Intn(len(ints))])
			}
		case "ptr":
			m[mv.Name] = fmt.Sprint(1000 + rng.Intn(3)) // non-nil, occasionally shared
		case "sliceref":
			m[mv.Name] = fmt.Sprint(2000 + rng.Intn(1000))
		case "elem":
			if strings.Contains(mv.GoType, "rune") || strings.Contains(mv.GoType, "int32") {
				m[mv.Name] = fmt.Sprint(runes[rng.Intn(len(runes))])
			} else if strings.Contains(mv.GoType, "bool") {
				m[mv.Name] = fmt.Sprint(rng.Intn(2) == 0)
			} else {
				m[mv.Name] = fmt.Sprint(ints[rng.Intn(len(ints))])
			}
		case "strbyte":
			bs := []int64{0, 36, 48, 65, 90, 97, 98, 122, 123, 127, 128, 0xC3, 0xA9, 0xEF, 0xBF, 0xBD, 0xFF}
			m[mv.Name] = fmt.Sprint(bs[rng.Intn(len(bs))])
		}
	}
	return m
}

// cmdReplay re-runs the generated test stored in a replay file against the repository.
func cmdReplay(args []string) int {
	fs := flag.NewFlagSet("replay", flag.ExitOnError)
	repo := fs.String("repo", "/repo", "repository")
	fs.Parse(args)
	if fs.NArg() != 1 {
		fmt.Fprintln(os.Stderr, "usage: govc replay [-repo dir] file.json")
		return 2
	}
	data, err := os.ReadFile(fs.Arg(0))
	if err != nil {
		fmt.Fprintln(os.Stderr, err)
		return 2
	}
	var rp map[string]interface{}
	if err := json.Unmarshal(data, &rp); err != nil {
		fmt.Fprintln(os.Stderr, err)
		return 2
	}
	fmt.Printf("obligation: %v\nclause: %v\nstatus: %v\n", rp["obligation"], rp["clause"], rp["status"])
	r, _ := rp["replay"].(map[string]interface{})
	if r == nil || r["test_source"] == nil {
		fmt.Println("no executable replay recorded for this obligation (no-failing-input-found); solver output:")
		fmt.Println(rp["solver_output"])
		return 1
	}
	out, outcome := runReplayTest(*repo, r["package_dir"].(string), r["test_source"].(string))
	fmt.Println(out)
	fmt.Println("replay outcome:", outcome)
	if outcome == "confirmed" {
		return 1
	}
	return 0
}
