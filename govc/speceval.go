package main

// Evaluation of spec expressions to symbolic values in a given (two-state) environment.

import (
	"fmt"
	"go/constant"
	"go/token"
	"go/types"
	"math/big"
	"os"
	"regexp"
	"sort"
	"strconv"
	"strings"

	"golang.org/x/tools/go/ssa"
)

type Env struct {
	fr        *Frame
	vars      map[string]Val
	cur, old  *State
	at        *ssa.BasicBlock
	phiSubst  map[*ssa.Phi]Val
	pkg       *types.Package
	depth     int
	callStack []string
	bound     map[string]bool // names bound by quantifiers / let / spec-function parameters (never program variables)
}

func (e *Env) clone() *Env {
	n := *e
	n.vars = make(map[string]Val, len(e.vars)+2)
	for k, v := range e.vars {
		n.vars[k] = v
	}
	return &n
}

// specEnv builds an environment for evaluating this frame's contract clauses / invariants.
func (fr *Frame) specEnv(cur, old *State) *Env {
	env := &Env{fr: fr, vars: map[string]Val{}, cur: cur, old: old, pkg: fr.fn.Pkg.Pkg}
	for k, v := range fr.envBase {
		env.vars[k] = v
	}
	return env
}

func (v *Verifier) evalBool(env *Env, e SExpr) Term {
	val := v.evalSpec(env, e)
	if val.K != KBool {
		encFail("spec expression %s is not boolean", e)
	}
	return val.A
}

func (v *Verifier) resolveType(pkg *types.Package, text string) types.Type {
	text = strings.TrimSpace(text)
	switch {
	case strings.HasPrefix(text, "*"):
		return types.NewPointer(v.resolveType(pkg, text[1:]))
	case strings.HasPrefix(text, "[]"):
		return types.NewSlice(v.resolveType(pkg, text[2:]))
	case strings.HasPrefix(text, "..."):
		return types.NewSlice(v.resolveType(pkg, text[3:]))
	case strings.HasPrefix(text, "["):
		i := strings.Index(text, "]")
		n, err := strconv.Atoi(text[1:i])
		if err != nil {
			encFail("bad array type %q", text)
		}
		return types.NewArray(v.resolveType(pkg, text[i+1:]), int64(n))
	case strings.HasPrefix(text, "map["):
		depth := 0
		for i := 3; i < len(text); i++ {
			if text[i] == '[' {
				depth++
			} else if text[i] == ']' {
				depth--
				if depth == 0 {
					return types.NewMap(v.resolveType(pkg, text[4:i]), v.resolveType(pkg, text[i+1:]))
				}
			}
		}
	case strings.HasPrefix(text, "func("):
		return types.NewSignatureType(nil, nil, nil, nil, nil, false)
	}
	if t := types.Universe.Lookup(text); t != nil {
		if tn, ok := t.(*types.TypeName); ok {
			return tn.Type()
		}
	}
	if i := strings.LastIndex(text, "."); i >= 0 {
		pn, tn := text[:i], text[i+1:]
		if p := v.pkgByName(pkg, pn); p != nil {
			if o := p.Scope().Lookup(tn); o != nil {
				return o.Type()
			}
		}
		encFail("cannot resolve type %q", text)
	}
	if pkg != nil {
		if o := pkg.Scope().Lookup(text); o != nil {
			if _, ok := o.(*types.TypeName); ok {
				return o.Type()
			}
		}
	}
	encFail("cannot resolve type %q in package %v", text, pkg)
	return nil
}

func (v *Verifier) pkgByName(from *types.Package, name string) *types.Package {
	if from != nil {
		if from.Name() == name {
			return from
		}
		for _, imp := range from.Imports() {
			if imp.Name() == name {
				return imp
			}
		}
	}
	// prefer packages of the repository over standard-library packages with the same short name
	for _, p := range v.allPkgs {
		if p.Name() == name && strings.HasPrefix(p.Path(), "github.com/dlclark/regexp2") {
			return p
		}
	}
	for _, p := range v.allPkgs {
		if p.Name() == name {
			return p
		}
	}
	return nil
}

func isNilVal(v Val) bool { return v.K == KUnit && v.A == "nil" }

func (v *Verifier) evalSpec(env *Env, e SExpr) Val {
	c := v.ctx
	switch x := e.(type) {
	case *SInt:
		bi, _ := new(big.Int).SetString(x.V, 10)
		return Val{K: KInt, A: numBig(bi)}
	case *SBool:
		if x.V {
			return Val{K: KBool, A: "true"}
		}
		return Val{K: KBool, A: "false"}
	case *SStr:
		return Val{K: KStr, A: v.strLit(c, x.V), T: types.Typ[types.String]}
	case *SNil:
		return Val{K: KUnit, A: "nil"}
	case *SIdent:
		return v.evalIdent(env, x.Name)
	case *SLet:
		val := v.evalSpec(env, x.Val)
		ne := env.clone()
		ne.bound = map[string]bool{x.Name: true}
		for k := range env.bound {
			ne.bound[k] = true
		}
		ne.vars[x.Name] = val
		return v.evalSpec(ne, x.Body)
	case *SUnary:
		a := v.evalSpec(env, x.X)
		switch x.Op {
		case "!":
			return Val{K: KBool, A: not(a.A)}
		case "-":
			return Val{K: KInt, T: a.T, A: "(- " + a.A + ")"}
		case "*":
			return v.specDeref(env, a)
		}
	case *SBinary:
		return v.evalBinary(env, x)
	case *SSel:
		// package-qualified name?
		if id, ok := x.X.(*SIdent); ok {
			if _, isVar := env.vars[id.Name]; !isVar && !v.isLocalName(env, id.Name) {
				if p := v.pkgByName(env.pkg, id.Name); p != nil && env.pkg.Scope().Lookup(id.Name) == nil {
					return v.evalPkgMember(env, p, x.Name)
				}
			}
		}
		base := v.evalSpec(env, x.X)
		return v.specField(env, base, x.Name)
	case *SIndex:
		base := v.evalSpec(env, x.X)
		idx := v.evalSpec(env, x.I)
		return v.specIndex(env, base, idx)
	case *SSlice:
		base := v.evalSpec(env, x.X)
		lo := "0"
		if x.Lo != nil {
			lo = v.evalSpec(env, x.Lo).A
		}
		switch base.K {
		case KSlice:
			hi := base.Len
			if x.Hi != nil {
				hi = v.evalSpec(env, x.Hi).A
			}
			return Val{K: KSlice, T: base.T, A: base.A, Off: add(base.Off, lo), Len: sub(hi, lo), Cap: sub(base.Cap, lo)}
		case KStr:
			hi := app("slen", base.A)
			if x.Hi != nil {
				hi = v.evalSpec(env, x.Hi).A
			}
			return Val{K: KStr, T: base.T, A: v.substr(c, base.A, lo, hi)}
		}
		encFail("spec: slicing kind %v", base.K)
	case *SCall:
		return v.evalCall(env, x)
	case *SQuant:
		ne := env.clone()
		ne.bound = map[string]bool{}
		for k := range env.bound {
			ne.bound[k] = true
		}
		for _, b := range x.Vars {
			ne.bound[b.Name] = true
		}
		var binders []string
		var ranges []Term
		// Bound variables are first given unique placeholders; once the whole quantified formula is built they are
		// renamed to <name>!q<h>, h being one more than the largest index of a bound variable inside it. The name of
		// a bound variable then depends only on the formula below its binder, so the same spec expression yields the
		// same term wherever it is evaluated (z3 identifies quantifiers only if their variable names agree), and an
		// inner binder (smaller h) can never capture an outer variable (larger h).
		type ph struct{ tmp, base string }
		var phs []ph
		for _, b := range x.Vars {
			t := v.resolveType(env.pkg, b.Type)
			srt := scalarSort(t)
			c.fresh++
			tmp := fmt.Sprintf("%s!qP%d$", b.Name, c.fresh)
			phs = append(phs, ph{tmp, b.Name})
			if kindOf(t) == KSlice {
				// a slice-typed bound variable is three integers (backing array, offset, length); cap == len
				sv := Val{K: KSlice, T: t, A: sym(tmp + ".ref"), Off: sym(tmp + ".off"), Len: sym(tmp + ".len"), Cap: sym(tmp + ".len")}
				binders = append(binders, "("+sv.A+" Int)", "("+sv.Off+" Int)", "("+sv.Len+" Int)")
				ranges = append(ranges, and(le("0", sv.A), le("0", sv.Off), le("0", sv.Len)))
				ne.vars[b.Name] = sv
				continue
			}
			if k := kindOf(t); k != KInt && k != KBool && k != KRef && k != KStr {
				encFail("spec: quantified variable %s of unsupported type %s", b.Name, b.Type)
			}
			binders = append(binders, "("+sym(tmp)+" "+srt+")")
			ne.vars[b.Name] = Val{K: kindOf(t), T: t, A: sym(tmp)}
			if kindOf(t) == KInt {
				if bt, ok := t.Underlying().(*types.Basic); ok && bt.Kind() != types.Int && bt.Kind() != types.Int64 {
					ranges = append(ranges, rangeAssump(t, sym(tmp)))
				}
			}
		}
		body := v.evalBool(ne, x.Body)
		pat := ""
		if len(x.Pats) > 0 {
			var ps []string
			for _, pe := range x.Pats {
				pv := v.evalSpec(ne, pe)
				ts, _ := flattenVal(pv)
				ps = append(ps, ts...)
				// mark(x): a pure trigger. The term is made part of the formula through a tautology, so that
				// a goal quantified the same way offers mark(skolem) as an instantiation point.
				if call, ok := pe.(*SCall); ok {
					if id, ok := call.Fn.(*SIdent); ok && id.Name == "mark" {
						if x.Forall {
							body = implies(pv.A, body)
						} else {
							body = and(pv.A, body)
						}
					}
				}
			}
			pat = " :pattern (" + strings.Join(ps, " ") + ")"
			for _, g := range x.AltPats {
				var gs []string
				for _, pe := range g {
					ts, _ := flattenVal(v.evalSpec(ne, pe))
					gs = append(gs, ts...)
				}
				pat += " :pattern (" + strings.Join(gs, " ") + ")"
			}
		}
		var res string
		if x.Forall {
			b := implies(and(ranges...), body)
			if pat != "" {
				b = "(! " + b + pat + ")"
			}
			res = "(forall (" + strings.Join(binders, " ") + ") " + b + ")"
		} else {
			b := and(append(ranges, body)...)
			if pat != "" {
				b = "(! " + b + pat + ")"
			}
			res = "(exists (" + strings.Join(binders, " ") + ") " + b + ")"
		}
		h := 0
		for _, m := range boundIdxRe.FindAllStringSubmatch(res, -1) {
			var k int
			fmt.Sscanf(m[1], "%d", &k)
			if k+1 > h {
				h = k + 1
			}
		}
		for _, p := range phs {
			res = strings.ReplaceAll(res, p.tmp, fmt.Sprintf("%s!q%d", p.base, h))
		}
		return Val{K: KBool, A: res}
	}
	encFail("spec: cannot evaluate %s", e)
	return Val{}
}

var boundIdxRe = regexp.MustCompile(`!q(\d+)`)

func (v *Verifier) isLocalName(env *Env, name string) bool {
	if env.fr == nil || env.at == nil {
		return false
	}
	if _, ok := env.fr.dbgNames[name]; ok {
		return true
	}
	return false
}

func (v *Verifier) evalIdent(env *Env, name string) Val {
	if name == "$pos" {
		// byte position of the string iterator of the enclosing range-over-string loop
		fr := env.fr
		if fr == nil || env.at == nil {
			encFail("spec: $pos used outside a loop invariant")
		}
		var it *ssa.Range
		for _, r := range fr.iters {
			if r.Block() == env.at || r.Block().Dominates(env.at) {
				it = r
			}
		}
		if it == nil {
			encFail("spec: $pos: no string iterator in scope")
		}
		iv := fr.vals[it]
		return Val{K: KInt, T: types.Typ[types.Int], A: fr.readLeaf(env.cur, iv.Loc, "", "Int")}
	}
	if val, ok := env.vars[name]; ok {
		// inside a loop invariant a reassigned parameter denotes its current value (old(x) gives the entry value)
		if env.fr != nil && env.at != nil && !env.bound[name] {
			if lv, ok := v.localName(env, name); ok {
				return lv
			}
		}
		return val
	}
	// local variables of the frame (loop invariants)
	if env.fr != nil && env.at != nil {
		if val, ok := v.localName(env, name); ok {
			return val
		}
	}
	// package-level
	if env.pkg != nil {
		if o := env.pkg.Scope().Lookup(name); o != nil {
			return v.evalObject(env, o)
		}
	}
	if sf := v.lookupSpec(env, name); sf != nil && len(sf.Params) == 0 {
		return v.applySpecFunc(env, sf, nil)
	}
	encFail("spec: unknown identifier %q", name)
	return Val{}
}

func (v *Verifier) evalPkgMember(env *Env, p *types.Package, name string) Val {
	o := p.Scope().Lookup(name)
	if o == nil {
		encFail("spec: %s.%s not found", p.Name(), name)
	}
	return v.evalObject(env, o)
}

func (v *Verifier) evalObject(env *Env, o types.Object) Val {
	switch o := o.(type) {
	case *types.Const:
		switch kindOf(o.Type()) {
		case KInt:
			bi, _ := new(big.Int).SetString(o.Val().ExactString(), 10)
			if bi == nil {
				encFail("spec: constant %s not integral", o.Name())
			}
			return Val{K: KInt, T: o.Type(), A: numBig(bi)}
		case KBool:
			if constant.BoolVal(o.Val()) {
				return Val{K: KBool, A: "true"}
			}
			return Val{K: KBool, A: "false"}
		case KStr:
			return Val{K: KStr, T: o.Type(), A: v.strLit(v.ctx, constant.StringVal(o.Val()))}
		}
	case *types.Var:
		l := &Loc{Comp: "G:" + o.Pkg().Name() + "." + o.Name(), T: o.Type()}
		return v.specLoad(env, l, o.Type())
	}
	encFail("spec: unsupported package-level object %s", o.Name())
	return Val{}
}

// localName resolves a source-level local variable at program point env.at: the closest dominating
// definition or mention (phi named after the variable, or debug reference).
func (v *Verifier) localName(env *Env, name string) (Val, bool) {
	fr := env.fr
	refs := fr.dbgNames[name]
	if len(refs) == 0 {
		// the name is not a local variable of the function as it is now: if it was one when the name hints were
		// recorded and the function still declares the same number of locals with the same types in the same order,
		// the variable at that position is meant (a renamed local)
		if alt := v.renamedLocal(fr, name); alt != "" {
			name = alt
			refs = fr.dbgNames[name]
		}
	}
	// range-over-slice index: the source variable is (hidden phi + 1); at the loop head it denotes the next index
	for _, d := range refs {
		if bo, ok := d.X.(*ssa.BinOp); ok && bo.Block() == env.at {
			if phi, ok := bo.X.(*ssa.Phi); ok && phi.Block() == env.at && phi.Comment == "rangeindex" {
				pv, ok := env.phiSubst[phi]
				if !ok {
					pv = fr.vals[phi]
				}
				return Val{K: KInt, T: phi.Type(), A: add(pv.A, "1")}, true
			}
		}
	}
	// a source variable that *is* a header phi (e.g. range-over-int iterator)
	for _, d := range refs {
		if phi, ok := d.X.(*ssa.Phi); ok && phi.Block() == env.at && d.Block() == env.at {
			if sv, ok := env.phiSubst[phi]; ok {
				return sv, true
			}
			if val, ok := fr.vals[phi]; ok {
				return val, true
			}
		}
	}
	type cand struct {
		b    *ssa.BasicBlock
		pos  int // instruction index in block
		phi  *ssa.Phi
		dref *ssa.DebugRef
	}
	var best *cand
	better := func(c *cand) bool {
		if best == nil {
			return true
		}
		if c.b == best.b {
			return c.pos > best.pos
		}
		return best.b.Dominates(c.b)
	}
	for _, b := range fr.fn.Blocks {
		if b != env.at && !b.Dominates(env.at) {
			continue
		}
		for idx, ins := range b.Instrs {
			switch x := ins.(type) {
			case *ssa.Phi:
				if x.Comment == name {
					if _, ok := fr.vals[x]; ok || env.phiSubst[x].K != 0 || env.phiSubst[x].A != "" {
						c := &cand{b: b, pos: idx, phi: x}
						if better(c) {
							best = c
						}
					}
				}
			case *ssa.DebugRef:
				if b == env.at {
					continue
				}
				if obj := x.Object(); obj == nil || obj.Name() != name {
					continue
				}
				if _, ok := fr.vals[x.X]; !ok {
					switch x.X.(type) {
					case *ssa.Const, *ssa.Parameter, *ssa.FreeVar, *ssa.Global, *ssa.Function:
					default:
						continue
					}
				}
				c := &cand{b: b, pos: idx, dref: x}
				if better(c) {
					best = c
				}
			}
		}
	}
	if best == nil {
		return Val{}, false
	}
	if best.phi != nil {
		if best.b == env.at {
			if sv, ok := env.phiSubst[best.phi]; ok {
				return sv, true
			}
		}
		return fr.vals[best.phi], true
	}
	d := best.dref
	val := fr.value(d.X)
	if d.IsAddr {
		// variable lives in memory
		pt := d.X.Type().Underlying().(*types.Pointer).Elem()
		switch val.K {
		case KLoc:
			return v.specLoad(env, val.Loc, pt), true
		case KRef:
			return val, true // struct variable: use as reference to the object
		}
	}
	return val, true
}

func (v *Verifier) specLoad(env *Env, l *Loc, t types.Type) Val {
	fr := v.curRoot
	if env.fr != nil {
		fr = env.fr
	}
	return fr.loadLocQuiet(env.cur, l, t)
}

// loadLocQuiet is loadLoc without asserting type facts when the location is under a quantifier.
func (fr *Frame) loadLocQuiet(st *State, l *Loc, t types.Type) Val {
	quant := strings.Contains(l.Ref, "!q") || strings.Contains(l.Idx, "!q")
	if !quant {
		return fr.loadLoc(st, l, t)
	}
	switch kindOf(t) {
	case KInt, KRef, KMap, KIface, KFunc, KArr:
		x := fr.readLeaf(st, l, "", "Int")
		if k := kindOf(t); k == KRef || k == KMap || k == KArr {
			// as in loadLoc: a reference stored in an entry-state object denotes an entry-state object
			fr.markOld(x)
		}
		return Val{K: kindOf(t), T: t, A: x}
	case KBool:
		return Val{K: KBool, T: t, A: fr.readLeaf(st, l, "", "Bool")}
	case KStr:
		return Val{K: KStr, T: t, A: fr.readLeaf(st, l, "", "Str")}
	case KSlice:
		sv := Val{K: KSlice, T: t, A: fr.readLeaf(st, l, "#ref", "Int"), Off: fr.readLeaf(st, l, "#off", "Int"),
			Len: fr.readLeaf(st, l, "#len", "Int"), Cap: fr.readLeaf(st, l, "#cap", "Int")}
		fr.markOld(sv.A)
		return sv
	case KStruct:
		stt := t.Underlying().(*types.Struct)
		res := Val{K: KStruct, T: t}
		for i := 0; i < stt.NumFields(); i++ {
			res.Fields = append(res.Fields, fr.loadLocQuiet(st, fr.subLoc(l, t, i), stt.Field(i).Type()))
		}
		return res
	case KLoc:
		pt := t.Underlying().(*types.Pointer).Elem()
		return Val{K: KLoc, T: t, Loc: &Loc{Comp: "C:" + typeName(pt), Ref: fr.readLeaf(st, l, "", "Int"), T: pt}}
	}
	encFail("spec: load of unsupported type %s", t)
	return Val{}
}

func (v *Verifier) specDeref(env *Env, a Val) Val {
	fr := v.frameFor(env)
	switch a.K {
	case KLoc:
		return fr.loadLocQuiet(env.cur, a.Loc, a.Loc.T)
	case KRef:
		pt := a.T.Underlying().(*types.Pointer).Elem()
		return fr.loadObj(env.cur, a.A, pt)
	case KInt, KBool, KStr, KSlice:
		// a captured variable of a closure: inside the body its name already denotes the value (debug information),
		// in the contract header it denotes the cell; "*x" is accepted for both
		return a
	}
	encFail("spec: dereference of kind %v", a.K)
	return Val{}
}

func (v *Verifier) frameFor(env *Env) *Frame {
	if env.fr != nil {
		return env.fr
	}
	return v.curRoot
}

func (v *Verifier) specField(env *Env, base Val, name string) Val {
	fr := v.frameFor(env)
	if strings.HasPrefix(name, "$") && base.K == KRef {
		l, t := v.ghostFieldLoc(env, base, name)
		if _, isArr := t.Underlying().(*types.Array); isArr {
			// ghost array field: a sequence stored with the object (addressed by a derived reference)
			pt := base.T.Underlying().(*types.Pointer).Elem()
			return Val{K: KArr, T: types.NewPointer(t), A: v.derivedRef(base.A, pt, name)}
		}
		return fr.loadLocQuiet(env.cur, l, t)
	}
	switch base.K {
	case KRef:
		pt := base.T.Underlying().(*types.Pointer).Elem()
		stt, ok := pt.Underlying().(*types.Struct)
		if !ok {
			encFail("spec: field %s of non-struct pointer", name)
		}
		for i := 0; i < stt.NumFields(); i++ {
			if stt.Field(i).Name() == name {
				fv := fr.fieldOf(base.A, pt, i)
				if fv.K == KLoc {
					return fr.loadLocQuiet(env.cur, fv.Loc, stt.Field(i).Type())
				}
				return fv // embedded struct / array: reference
			}
		}
		// promoted fields of embedded structs
		for i := 0; i < stt.NumFields(); i++ {
			if stt.Field(i).Embedded() {
				if _, isStruct := stt.Field(i).Type().Underlying().(*types.Struct); isStruct && structHasField(stt.Field(i).Type(), name) {
					fv := fr.fieldOf(base.A, pt, i)
					return v.specField(env, fv, name)
				}
			}
		}
		encFail("spec: type %s has no field %s", pt, name)
	case KStruct:
		stt := base.T.Underlying().(*types.Struct)
		for i := 0; i < stt.NumFields(); i++ {
			if stt.Field(i).Name() == name {
				return base.Fields[i]
			}
		}
		for i := 0; i < stt.NumFields(); i++ {
			if stt.Field(i).Embedded() && structHasField(stt.Field(i).Type(), name) && base.Fields[i].K == KStruct {
				return v.specField(env, base.Fields[i], name)
			}
		}
		encFail("spec: type %s has no field %s", base.T, name)
	case KLoc:
		stt, ok := base.Loc.T.Underlying().(*types.Struct)
		if ok {
			for i := 0; i < stt.NumFields(); i++ {
				if stt.Field(i).Name() == name {
					return fr.loadLocQuiet(env.cur, fr.subLoc(base.Loc, base.Loc.T, i), stt.Field(i).Type())
				}
			}
			for i := 0; i < stt.NumFields(); i++ {
				if stt.Field(i).Embedded() && structHasField(stt.Field(i).Type(), name) {
					sl := fr.subLoc(base.Loc, base.Loc.T, i)
					return v.specField(env, Val{K: KLoc, T: types.NewPointer(stt.Field(i).Type()), Loc: sl}, name)
				}
			}
		}
	}
	encFail("spec: cannot select field %s from kind %v", name, base.K)
	return Val{}
}

func (v *Verifier) specIndex(env *Env, base, idx Val) Val {
	fr := v.frameFor(env)
	switch base.K {
	case KSlice, KArr:
		l, et := fr.elemLoc(base, idx.A)
		if kindOf(et) == KStruct {
			return fr.loadLocQuiet(env.cur, l, et)
		}
		// element loads under quantifiers must not assert facts
		q := *l
		if strings.Contains(idx.A, "!q") {
			q.Idx = l.Idx
		}
		return fr.loadLocQuiet(env.cur, &q, et)
	case KStr:
		return Val{K: KInt, T: types.Typ[types.Uint8], A: app("sbyte", base.A, idx.A)}
	case KMap:
		pfx, ks, vt := mapComps(base.T)
		dom := sel(sel(v.ctx.get(env.cur, pfx+"#dom", "(Array Int (Array "+ks+" Bool))"), base.A), idx.A)
		ok := and(not(eq(base.A, "0")), dom)
		switch kindOf(vt) {
		case KInt, KRef, KIface, KFunc, KMap:
			t := sel(sel(v.ctx.get(env.cur, pfx+"#val", "(Array Int (Array "+ks+" Int))"), base.A), idx.A)
			return Val{K: kindOf(vt), T: vt, A: ite(ok, t, "0")}
		case KBool:
			t := sel(sel(v.ctx.get(env.cur, pfx+"#val", "(Array Int (Array "+ks+" Bool))"), base.A), idx.A)
			return Val{K: KBool, T: vt, A: and(ok, t)}
		case KStr:
			t := sel(sel(v.ctx.get(env.cur, pfx+"#val", "(Array Int (Array "+ks+" Str))"), base.A), idx.A)
			return Val{K: KStr, T: vt, A: ite(ok, t, v.strLit(v.ctx, ""))}
		}
		encFail("spec: map value type unsupported")
	}
	encFail("spec: indexing kind %v", base.K)
	return Val{}
}

func (v *Verifier) evalBinary(env *Env, x *SBinary) Val {
	switch x.Op {
	case "&&":
		return Val{K: KBool, A: and(v.evalBool(env, x.X), v.evalBool(env, x.Y))}
	case "||":
		return Val{K: KBool, A: or(v.evalBool(env, x.X), v.evalBool(env, x.Y))}
	case "==>":
		return Val{K: KBool, A: implies(v.evalBool(env, x.X), v.evalBool(env, x.Y))}
	case "<==>":
		return Val{K: KBool, A: eq(v.evalBool(env, x.X), v.evalBool(env, x.Y))}
	}
	a := v.evalSpec(env, x.X)
	b := v.evalSpec(env, x.Y)
	switch x.Op {
	case "==", "!=":
		var t Term
		switch {
		case isNilVal(a) && isNilVal(b):
			t = "true"
		case isNilVal(b):
			t = nilTest(a)
		case isNilVal(a):
			t = nilTest(b)
		default:
			t = eqVal(a, b)
		}
		if x.Op == "!=" {
			t = not(t)
		}
		return Val{K: KBool, A: t}
	case "<", "<=", ">", ">=":
		return Val{K: KBool, A: "(" + x.Op + " " + a.A + " " + b.A + ")"}
	case "+":
		if a.K == KStr {
			f := v.ctx.declareFun("sconcat", []string{"Str", "Str"}, "Str")
			return Val{K: KStr, T: a.T, A: app(f, a.A, b.A)}
		}
		return Val{K: KInt, T: pickT(a, b), A: add(a.A, b.A)}
	case "-":
		return Val{K: KInt, T: pickT(a, b), A: sub(a.A, b.A)}
	case "*":
		return Val{K: KInt, T: pickT(a, b), A: "(* " + a.A + " " + b.A + ")"}
	case "/":
		return Val{K: KInt, T: pickT(a, b), A: tdiv(a.A, b.A)}
	case "%":
		return Val{K: KInt, T: pickT(a, b), A: trem(a.A, b.A)}
	case "&":
		if bc, ok := constOf(b.A); ok && bc.Sign() >= 0 {
			return Val{K: KInt, T: pickT(a, b), A: v.curRoot.bitAndConst(a.A, bc, nil)}
		}
		f := v.ctx.declareFun("band", []string{"Int", "Int"}, "Int")
		return Val{K: KInt, T: pickT(a, b), A: app(f, a.A, b.A)}
	case "|":
		if bc, ok := constOf(b.A); ok && bc.Sign() >= 0 {
			return Val{K: KInt, T: pickT(a, b), A: "(+ " + a.A + " (- " + bc.String() + " " + v.curRoot.bitAndConst(a.A, bc, nil) + "))"}
		}
		f := v.ctx.declareFun("bor", []string{"Int", "Int"}, "Int")
		return Val{K: KInt, T: pickT(a, b), A: app(f, a.A, b.A)}
	case "<<":
		if bc, ok := constOf(b.A); ok {
			return Val{K: KInt, T: a.T, A: "(* " + a.A + " " + pow2(bc.Int64()).String() + ")"}
		}
	case ">>":
		if bc, ok := constOf(b.A); ok {
			return Val{K: KInt, T: a.T, A: "(div " + a.A + " " + pow2(bc.Int64()).String() + ")"}
		}
	}
	encFail("spec: unsupported binary operator %s", x.Op)
	return Val{}
}

func pickT(a, b Val) types.Type {
	if a.T != nil {
		return a.T
	}
	return b.T
}

func nilTest(a Val) Term {
	switch a.K {
	case KSlice:
		return eq(a.A, "0")
	case KLoc:
		return eq(orZero(a.Loc.Ref), "0")
	case KRef, KIface, KFunc, KMap, KArr:
		return eq(a.A, "0")
	}
	encFail("spec: comparison of kind %v with nil", a.K)
	return ""
}

func (v *Verifier) lookupSpec(env *Env, name string) *SpecFunc {
	if env.pkg != nil {
		if sf, ok := v.contracts.Specs[env.pkg.Name()+"."+name]; ok {
			return sf
		}
	}
	// unique bare name across packages
	var found *SpecFunc
	for k, sf := range v.contracts.Specs {
		if strings.HasSuffix(k, "."+name) {
			if found != nil && found != sf {
				return nil
			}
			found = sf
		}
	}
	return found
}

func (v *Verifier) evalCall(env *Env, x *SCall) Val {
	// qualified spec function: pkg.Name(...)
	if sel, ok := x.Fn.(*SSel); ok {
		if id, ok := sel.X.(*SIdent); ok {
			if sf, ok := v.contracts.Specs[id.Name+"."+sel.Name]; ok {
				return v.applySpecFunc(env, sf, x.Args)
			}
			// pure library function used as a spec function
			if lc, ok := v.contracts.Funcs[id.Name+"."+sel.Name]; ok && lc.Pure {
				var terms []Term
				var sorts []string
				for _, a := range x.Args {
					ts, ss := flattenVal(v.evalSpec(env, a))
					terms = append(terms, ts...)
					sorts = append(sorts, ss...)
				}
				lp := v.pkgByName(env.pkg, lc.PkgName)
				rt := v.resolveType(lp, lc.Results[0].Type)
				f := v.ctx.declareFun("F!"+lc.Key, sorts, scalarSort(rt))
				v.trustedUsed[lc.Key] = lc.TrustWhy
				return Val{K: kindOf(rt), T: rt, A: app(f, terms...)}
			}
			// type conversion pkg.T(x)
			if p := v.pkgByName(env.pkg, id.Name); p != nil {
				if o, ok := p.Scope().Lookup(sel.Name).(*types.TypeName); ok {
					a := v.evalSpec(env, x.Args[0])
					a.T = o.Type()
					return a
				}
			}
		}
		encFail("spec: unsupported call %s", x)
	}
	id, ok := x.Fn.(*SIdent)
	if !ok {
		encFail("spec: unsupported call %s", x)
	}
	switch id.Name {
	case "old":
		if env.old == nil {
			encFail("spec: old() used without a pre-state")
		}
		ne := env.clone()
		ne.cur = env.old
		ne.at = nil
		return v.evalSpec(ne, x.Args[0])
	case "len":
		a := v.evalSpec(env, x.Args[0])
		switch a.K {
		case KSlice:
			return Val{K: KInt, T: types.Typ[types.Int], A: a.Len}
		case KStr:
			return Val{K: KInt, T: types.Typ[types.Int], A: app("slen", a.A)}
		case KArr:
			return Val{K: KInt, T: types.Typ[types.Int], A: v.frameFor(env).lenOf(a)}
		case KMap:
			return Val{K: KInt, T: types.Typ[types.Int], A: v.frameFor(env).mapCard(env.cur, a)}
		}
		encFail("spec: len of kind %v", a.K)
	case "cap":
		a := v.evalSpec(env, x.Args[0])
		if a.K == KSlice {
			return Val{K: KInt, T: types.Typ[types.Int], A: a.Cap}
		}
		encFail("spec: cap of kind %v", a.K)
	case "min", "max":
		a := v.evalSpec(env, x.Args[0])
		b := v.evalSpec(env, x.Args[1])
		if id.Name == "min" {
			return Val{K: KInt, T: a.T, A: ite(le(a.A, b.A), a.A, b.A)}
		}
		return Val{K: KInt, T: a.T, A: ite(le(a.A, b.A), b.A, a.A)}
	case "ite":
		cnd := v.evalBool(env, x.Args[0])
		a := v.evalSpec(env, x.Args[1])
		b := v.evalSpec(env, x.Args[2])
		if a.K == KInt || a.K == KBool || a.K == KRef || a.K == KStr {
			return Val{K: a.K, T: a.T, A: ite(cnd, a.A, b.A)}
		}
		encFail("spec: ite over kind %v", a.K)
	case "fresh":
		// fresh(x): object allocated during the call / function
		a := v.evalSpec(env, x.Args[0])
		if env.old == nil {
			encFail("spec: fresh() without pre-state")
		}
		ref := a.A
		if a.K == KLoc {
			ref = a.Loc.Ref
		}
		return Val{K: KBool, A: and(le(env.old.nxt, ref), lt(ref, env.cur.nxt))}
	case "allocated":
		a := v.evalSpec(env, x.Args[0])
		ref := a.A
		if a.K == KLoc {
			ref = a.Loc.Ref
		}
		return Val{K: KBool, A: and(lt("0", ref), lt(ref, env.cur.nxt))}
	case "ref": // identity of the backing array / object
		a := v.evalSpec(env, x.Args[0])
		if a.K == KLoc {
			return Val{K: KInt, A: orZero(a.Loc.Ref)}
		}
		return Val{K: KInt, A: a.A}
	case "off":
		a := v.evalSpec(env, x.Args[0])
		return Val{K: KInt, A: a.Off}
	case "int", "rune", "byte", "uint", "int32", "int64", "uint8", "uint32", "uint64", "uint16", "int16", "int8":
		a := v.evalSpec(env, x.Args[0])
		t := types.Universe.Lookup(id.Name).Type()
		return Val{K: KInt, T: t, A: a.A}
	case "mark":
		a := v.evalSpec(env, x.Args[0])
		f := v.ctx.declareFun("Mark!", []string{"Int"}, "Bool")
		if !v.facts["markax"] {
			v.facts["markax"] = true
			// Mark! is constantly true; it only exists to give quantifiers an instantiation point
			v.ctx.assert("(forall ((x! Int)) (! (Mark! x!) :pattern ((Mark! x!))))", "trigger marker is always true")
		}
		return Val{K: KBool, A: app(f, a.A)}
	case "has":
		m := v.evalSpec(env, x.Args[0])
		k := v.evalSpec(env, x.Args[1])
		if m.K != KMap {
			encFail("spec: has() on non-map")
		}
		pfx, ks, _ := mapComps(m.T)
		dom := sel(sel(v.ctx.get(env.cur, pfx+"#dom", "(Array Int (Array "+ks+" Bool))"), m.A), k.A)
		return Val{K: KBool, A: and(not(eq(m.A, "0")), dom)}
	case "band", "bor":
		a := v.evalSpec(env, x.Args[0])
		b := v.evalSpec(env, x.Args[1])
		f := v.ctx.declareFun(id.Name, []string{"Int", "Int"}, "Int")
		v.bitAxioms()
		return Val{K: KInt, T: a.T, A: app(f, a.A, b.A)}
	case "pow2":
		a := v.evalSpec(env, x.Args[0])
		v.bitAxioms()
		return Val{K: KInt, A: app("pow2", a.A)}
	case "runeat", "widthat":
		// trusted UTF-8 decode spec: rune decoded at a byte offset of a string and its width
		a := v.evalSpec(env, x.Args[0])
		i := v.evalSpec(env, x.Args[1])
		v.strPrelude(v.ctx)
		if id.Name == "runeat" {
			return Val{K: KInt, T: types.Typ[types.Int32], A: app("srune", a.A, i.A)}
		}
		return Val{K: KInt, T: types.Typ[types.Int], A: app("swidth", a.A, i.A)}
	case "wrap32":
		a := v.evalSpec(env, x.Args[0])
		return Val{K: KInt, T: types.Typ[types.Int32], A: v.curRoot.wrap(a.A, types.Typ[types.Int32])}
	}
	if sf := v.lookupSpec(env, id.Name); sf != nil {
		return v.applySpecFunc(env, sf, x.Args)
	}
	if env.pkg != nil {
		if lc, ok := v.contracts.Funcs[env.pkg.Name()+"."+id.Name]; ok && lc.Pure && len(lc.Results) == 1 {
			var terms []Term
			var sorts []string
			for _, a := range x.Args {
				ts, ss := flattenVal(v.evalSpec(env, a))
				terms = append(terms, ts...)
				sorts = append(sorts, ss...)
			}
			rt := v.resolveType(env.pkg, lc.Results[0].Type)
			f := v.ctx.declareFun("F!"+lc.Key, sorts, scalarSort(rt))
			return Val{K: kindOf(rt), T: rt, A: app(f, terms...)}
		}
	}
	// type conversion to a named type of the package
	if env.pkg != nil {
		if o, ok := env.pkg.Scope().Lookup(id.Name).(*types.TypeName); ok && len(x.Args) == 1 {
			a := v.evalSpec(env, x.Args[0])
			a.T = o.Type()
			return a
		}
	}
	encFail("spec: unknown function %s", id.Name)
	return Val{}
}

func (v *Verifier) applySpecFunc(env *Env, sf *SpecFunc, args []SExpr) Val {
	if len(args) != len(sf.Params) {
		encFail("spec: %s expects %d arguments, got %d", sf.Name, len(sf.Params), len(args))
	}
	sfPkg := v.pkgByName(env.pkg, sf.PkgName)
	var avals []Val
	for i, a := range args {
		av := v.evalSpec(env, a)
		pt := v.resolveType(sfPkg, sf.Params[i].Type)
		if isNilVal(av) {
			av = v.curRoot.zeroVal(pt)
		}
		if av.T == nil || av.K == KInt {
			av.T = pt
		}
		// a struct-valued parameter may be given as a reference to the object: read it
		if kindOf(pt) == KStruct && av.K == KRef {
			av = v.frameFor(env).loadObj(env.cur, av.A, pt)
		}
		avals = append(avals, av)
	}
	if sf.Body == nil {
		// ghost (uninterpreted) function
		var sorts []string
		var terms []Term
		for _, av := range avals {
			ts, ss := flattenVal(av)
			terms = append(terms, ts...)
			sorts = append(sorts, ss...)
		}
		rt := v.resolveType(sfPkg, sf.Result)
		f := v.ctx.declareFun("G!"+sf.PkgName+"."+sf.Name, sorts, scalarSort(rt))
		v.libAxiomsFor(env, sf)
		v.foreignAxiomsFor(env, sf)
		return Val{K: kindOf(rt), T: rt, A: app(f, terms...)}
	}
	if t, ok := v.tryDefineFun(env, sf, sfPkg, avals); ok && os.Getenv("GOVC_NODEF") == "" {
		return t
	}
	for _, s := range env.callStack {
		if s == sf.PkgName+"."+sf.Name {
			encFail("spec: recursive spec function %s (not supported; use a ghost function with axioms)", sf.Name)
		}
	}
	ne := &Env{fr: env.fr, vars: map[string]Val{}, cur: env.cur, old: env.old, pkg: sfPkg, depth: env.depth + 1,
		callStack: append(append([]string{}, env.callStack...), sf.PkgName+"."+sf.Name)}
	// inside a spec function every name is a parameter of that function: never resolve to program variables
	for i, p := range sf.Params {
		ne.vars[p.Name] = avals[i]
	}
	res := v.evalSpec(ne, sf.Body)
	if res.T == nil {
		res.T = v.resolveType(sfPkg, sf.Result)
	}
	return res
}

func flattenVal(a Val) (terms []Term, sorts []string) {
	switch a.K {
	case KInt, KRef, KIface, KFunc, KMap, KArr:
		return []Term{a.A}, []string{"Int"}
	case KBool:
		return []Term{a.A}, []string{"Bool"}
	case KStr:
		return []Term{a.A}, []string{"Str"}
	case KSlice:
		return []Term{a.A, a.Off, a.Len}, []string{"Int", "Int", "Int"}
	case KLoc:
		return []Term{orZero(a.Loc.Ref)}, []string{"Int"}
	case KStruct, KTuple:
		for _, f := range a.Fields {
			t, s := flattenVal(f)
			terms = append(terms, t...)
			sorts = append(sorts, s...)
		}
		return
	}
	encFail("spec: cannot pass kind %v to a ghost function", a.K)
	return
}

// tryDefineFun: spec functions over scalars that do not read the heap become SMT define-fun's (keeps VCs small).
func (v *Verifier) tryDefineFun(env *Env, sf *SpecFunc, sfPkg *types.Package, avals []Val) (res Val, ok bool) {
	key := sf.PkgName + "." + sf.Name
	for _, a := range avals {
		if a.K != KInt && a.K != KBool {
			return Val{}, false
		}
	}
	if st, seen := v.defFuns[key]; seen {
		if st == "" {
			return Val{}, false
		}
	} else {
		v.defFuns[key] = ""
		func() {
			defer func() {
				if r := recover(); r != nil {
					if _, isEnc := r.(EncError); !isEnc {
						if _, isRT := r.(error); !isRT {
							panic(r)
						}
					}
				}
			}()
			ne := &Env{fr: nil, vars: map[string]Val{}, cur: nil, old: nil, pkg: sfPkg, callStack: append(append([]string{}, env.callStack...), key)}
			var formals []string
			for i, p := range sf.Params {
				pt := v.resolveType(sfPkg, p.Type)
				nm := sym("a!" + p.Name)
				formals = append(formals, "("+nm+" "+scalarSort(pt)+")")
				ne.vars[p.Name] = Val{K: avals[i].K, T: pt, A: nm}
			}
			nd := len(v.ctx.decls)
			na := len(v.ctx.asserts)
			body := v.evalSpec(ne, sf.Body)
			if len(v.ctx.asserts) != na {
				// evaluation asserted facts (heap reads etc.): not a closed function
				return
			}
			_ = nd
			rt := v.resolveType(sfPkg, sf.Result)
			fname := sym("S!" + key)
			if strings.Contains(body.A, "!q") || true {
				v.ctx.decls = append(v.ctx.decls, fmt.Sprintf("(define-fun %s (%s) %s %s)", fname, strings.Join(formals, " "), scalarSort(rt), body.A))
				v.ctx.declared[fname] = "define-fun"
				v.defFuns[key] = fname
			}
		}()
		if v.defFuns[key] == "" {
			return Val{}, false
		}
	}
	var terms []Term
	for _, a := range avals {
		terms = append(terms, a.A)
	}
	rt := v.resolveType(sfPkg, sf.Result)
	return Val{K: kindOf(rt), T: rt, A: app(v.defFuns[key], terms...)}, true
}

func structHasField(t types.Type, name string) bool {
	stt, ok := t.Underlying().(*types.Struct)
	if !ok {
		return false
	}
	for i := 0; i < stt.NumFields(); i++ {
		if stt.Field(i).Name() == name {
			return true
		}
		if stt.Field(i).Embedded() && structHasField(stt.Field(i).Type(), name) {
			return true
		}
	}
	return false
}

// bitAxioms: sound facts about the uninterpreted bit operations used for the bit-set idiom
// (x | 1<<k, x & 1<<k) on 64-bit words; validated exhaustively by the setup self-test.
func (v *Verifier) bitAxioms() {
	c := v.ctx
	if v.facts["bitax"] {
		return
	}
	v.facts["bitax"] = true
	c.declareFun("pow2", []string{"Int"}, "Int")
	c.declareFun("band", []string{"Int", "Int"}, "Int")
	c.declareFun("bor", []string{"Int", "Int"}, "Int")
	c.assert("(forall ((k! Int)) (! (=> (and (<= 0 k!) (< k! 64)) (and (<= 1 (pow2 k!)) (<= (pow2 k!) 9223372036854775808))) :pattern ((pow2 k!))))", "pow2 range")
	c.assert("(forall ((x! Int) (k! Int)) (! (=> (and (<= 0 k!) (< k! 64) (<= 0 x!)) (= (band (bor x! (pow2 k!)) (pow2 k!)) (pow2 k!))) :pattern ((bor x! (pow2 k!)))))", "set bit is set")
	c.assert("(forall ((x! Int) (j! Int) (k! Int)) (! (=> (and (<= 0 k!) (< k! 64) (<= 0 j!) (< j! 64) (not (= j! k!)) (<= 0 x!)) (= (band (bor x! (pow2 j!)) (pow2 k!)) (band x! (pow2 k!)))) :pattern ((band (bor x! (pow2 j!)) (pow2 k!)))))", "other bits kept")
	c.assert("(forall ((y! Int)) (! (= (band 0 y!) 0) :pattern ((band 0 y!))))", "zero word")
	c.assert("(forall ((x! Int) (y! Int)) (! (=> (and (<= 0 x!) (<= 0 y!) (< x! 18446744073709551616) (< y! 18446744073709551616)) (and (<= 0 (bor x! y!)) (< (bor x! y!) 18446744073709551616) (<= 0 (band x! y!)) (<= (band x! y!) x!))) :pattern ((bor x! y!))))", "word range")
}

// ghostFieldLoc: location of a declared ghost field ($name) of an object.
func (v *Verifier) ghostFieldLoc(env *Env, base Val, name string) (*Loc, types.Type) {
	pt := base.T.Underlying().(*types.Pointer).Elem()
	tn := typeName(pt)
	gf := v.contracts.GhostFields[tn+"."+name]
	if gf == nil {
		encFail("spec: ghost field %s.%s is not declared", tn, name)
	}
	gt := v.resolveType(v.pkgByName(env.pkg, gf.Pkg), gf.Type)
	return &Loc{Comp: "H:" + tn + "." + name, Ref: base.A, T: gt}, gt
}

// foreignAxiomsFor: a ghost function of another repository package than the one the verified function lives in
// is used: assert (once) that package's axioms which mention it, evaluated in the entry state like the axioms of
// the function's own package.
func (v *Verifier) foreignAxiomsFor(env *Env, sf *SpecFunc) {
	root := v.curRoot
	if root == nil || sf.PkgName == "lib" || sf.PkgName == root.fn.Pkg.Pkg.Name() {
		return
	}
	key := "foreignax:" + sf.PkgName + "." + sf.Name
	if v.facts[key] {
		return
	}
	v.facts[key] = true
	for _, ax := range v.contracts.Axioms {
		if ax.PkgName != sf.PkgName || !strings.Contains(ax.Text, sf.Name+"(") {
			continue
		}
		akey := "foreignaxiom:" + ax.PkgName + "." + ax.Name
		if v.facts[akey] {
			continue
		}
		v.facts[akey] = true
		pkg := v.pkgByName(root.fn.Pkg.Pkg, ax.PkgName)
		if pkg == nil {
			continue
		}
		ne := &Env{fr: root, vars: map[string]Val{}, cur: root.entrySt, old: root.entrySt, pkg: pkg}
		t := v.evalBool(ne, ax.Expr)
		v.ctx.assert(t, "axiom "+ax.PkgName+"."+ax.Name+": "+ax.Text)
		v.axiomsUsed[ax.PkgName+"."+ax.Name] = true
	}
}

// libAxiomsFor asserts (once per function encoding) the library axioms that define a library ghost function,
// the first time that function is used. Library axioms are state independent (they talk about strings only).
func (v *Verifier) libAxiomsFor(env *Env, sf *SpecFunc) {
	if sf.PkgName != "lib" {
		return
	}
	key := "libax:" + sf.Name
	if v.facts[key] {
		return
	}
	v.facts[key] = true
	for _, ax := range v.contracts.Axioms {
		if ax.PkgName != "lib" || !strings.Contains(ax.Text, sf.Name+"(") {
			continue
		}
		akey := "libaxiom:" + ax.Name
		if v.facts[akey] {
			continue
		}
		v.facts[akey] = true
		ne := &Env{fr: env.fr, vars: map[string]Val{}, cur: v.curRoot.entrySt, old: v.curRoot.entrySt, pkg: nil}
		t := v.evalBool(ne, ax.Expr)
		v.ctx.assert(t, "library axiom "+ax.Name+": "+ax.Text)
		v.axiomsUsed["lib."+ax.Name] = true
	}
}

// localOrder: the local variables (incl. parameters) the function mentions, in order of declaration.
func (fr *Frame) localOrder() [][2]string {
	type ov struct {
		pos  token.Pos
		name string
		typ  string
	}
	seen := map[types.Object]bool{}
	var vs []ov
	for _, refs := range fr.dbgNames {
		for _, d := range refs {
			o := d.Object()
			if o == nil || seen[o] {
				continue
			}
			if tv, ok := o.(*types.Var); !ok || tv.IsField() || tv.Pkg() == nil || tv.Parent() == nil || tv.Parent() == tv.Pkg().Scope() {
				continue // only variables declared inside the function
			}
			seen[o] = true
			vs = append(vs, ov{o.Pos(), o.Name(), types.TypeString(o.Type(), nil)})
		}
	}
	sort.Slice(vs, func(i, j int) bool { return vs[i].pos < vs[j].pos })
	var out [][2]string
	for _, x := range vs {
		out = append(out, [2]string{x.name, x.typ})
	}
	return out
}

func (v *Verifier) renamedLocal(fr *Frame, name string) string {
	if v.nameHints == nil {
		return ""
	}
	old := v.nameHints[funcKey(fr.fn)]
	if old == nil {
		return ""
	}
	cur := fr.localOrder()
	if len(cur) != len(old) {
		return ""
	}
	idx := -1
	for i := range old {
		if old[i][1] != cur[i][1] {
			return ""
		}
		if old[i][0] == name {
			idx = i
		}
	}
	if idx < 0 || cur[idx][0] == name {
		return ""
	}
	v.note(fr.objPfx + ": contract name " + name + " resolved to the renamed local " + cur[idx][0])
	return cur[idx][0]
}
