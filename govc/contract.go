package main

// Contract files: comment-only Go files (//go:build verif) in /repo whose "//@" lines carry
// the specifications. This file parses them into Contract structures.

import (
	"fmt"
	"go/ast"
	"go/parser"
	"go/token"
	"os"
	"path/filepath"
	"regexp"
	"sort"
	"strings"
)

type Clause struct {
	Kind   string // requires ensures invariant decreases modifies canary-ensures canary-requires assume
	Label  string
	Props  []string // nil => inherit
	Text   string
	Expr   SExpr
	File   string
	Line   int
	Canary bool
}

type LoopSpec struct {
	Ordinal    int
	Invariants []*Clause
	Decreases  *Clause
	Unroll     int
	Assumes    []*Clause // assumed at the loop head, not checked (listed in evidence)
	Isolated   bool      // "isolated": obligations from the loop head on do not see quantified facts stated between the start of the body and this loop
	Exits      []*Clause // "exit": proved where the loop is left; the heap written so far is then forgotten except for these facts (a cut)
}

type ParamDecl struct {
	Name string
	Type string // Go type text
}

type Contract struct {
	Key         string // canonical function key: pkgname.Func or pkgname.(*T).M or pkgname.T.M; closures: ...$1
	PkgName     string
	Header      string
	Recv        *ParamDecl
	Params      []ParamDecl
	Results     []ParamDecl
	Props       []string
	Requires    []*Clause
	Ensures     []*Clause
	Modifies    []*Clause // each clause text is a comma-separated list of locations
	HasMod      bool
	Loops       map[int]*LoopSpec
	Inline      bool
	Trusted     bool              // contract is assumed, body not verified (listed in evidence)
	TrustWhy    string            // reason
	Lib         bool              // library contract (function outside the repo)
	FuncSpec    bool              // contract for function values
	Calls       map[string]string // local variable / field name -> funcspec name for dynamic calls
	Implements  []string          // funcspecs this function must implement
	NoOverflow  bool              // treat integer arithmetic as mathematical in this function (listed)
	Overflow    bool              // generate overflow obligations
	Pure        bool              // modifies nothing, result is a function of args+heap (for lib)
	Free        []ParamDecl       // closures: names/types for free variables (positional)
	File        string
	Line        int
	Assumes     []*Clause // assumptions local to this function (listed in evidence)
	Terminates  bool
	ReadsHeap   bool
	CallAssumes map[string][]*Clause // callee name -> assumptions instantiated just before that call (listed in evidence)
	CallEnsures map[string][]*Clause // callee name -> facts assumed right after that call, over the callee's parameters and results (listed in evidence)
}

type SpecFunc struct {
	Name    string
	PkgName string
	Params  []ParamDecl
	Result  string
	Body    SExpr // nil => ghost (uninterpreted)
	Text    string
	File    string
	Line    int
}

type Axiom struct {
	Name    string
	PkgName string
	Text    string
	Expr    SExpr
	File    string
	Line    int
}

type GhostField struct {
	Struct string // pkg.Type
	Name   string // $name
	Type   string
	Pkg    string
}

type ContractSet struct {
	GhostFields map[string]*GhostField // "pkg.Type.$name"
	Funcs       map[string]*Contract   // by key
	FuncSpecs   map[string]*Contract
	Specs       map[string]*SpecFunc // by pkgname.Name and bare Name
	Axioms      []*Axiom
	Files       []string
}

var clauseRe = regexp.MustCompile(`^(requires|ensures|invariant|decreases|modifies|canary|assume|exit)(\[[^\]]*\])?\s*(.*)$`)

type rawLine struct {
	text string
	file string
	line int
}

func loadContractFiles(root string) (*ContractSet, error) {
	cs := &ContractSet{Funcs: map[string]*Contract{}, FuncSpecs: map[string]*Contract{}, Specs: map[string]*SpecFunc{}, GhostFields: map[string]*GhostField{}}
	var files []string
	filepath.Walk(root, func(p string, info os.FileInfo, err error) error {
		if err != nil {
			return nil
		}
		if info.IsDir() {
			if strings.HasPrefix(info.Name(), ".") && p != root || info.Name() == "testdata" {
				return filepath.SkipDir
			}
			return nil
		}
		if strings.HasPrefix(info.Name(), "contracts_verif") && strings.HasSuffix(info.Name(), ".go") {
			files = append(files, p)
		}
		return nil
	})
	sort.Strings(files)
	for _, f := range files {
		if err := cs.parseFile(f); err != nil {
			return nil, err
		}
	}
	cs.Files = files
	return cs, nil
}

func (cs *ContractSet) parseFile(path string) error {
	data, err := os.ReadFile(path)
	if err != nil {
		return err
	}
	lines := strings.Split(string(data), "\n")
	pkgName := ""
	var raws []rawLine
	for i, l := range lines {
		t := strings.TrimSpace(l)
		if strings.HasPrefix(t, "package ") {
			pkgName = strings.TrimSpace(strings.TrimPrefix(t, "package "))
		}
		if strings.HasPrefix(t, "//@") {
			body := strings.TrimPrefix(t, "//@")
			raws = append(raws, rawLine{strings.TrimRight(body, " \t"), path, i + 1})
		}
	}
	if pkgName == "" {
		return fmt.Errorf("%s: no package clause", path)
	}
	// group into items: a line whose first word is a top-level keyword begins a new item;
	// clause keywords begin a new clause in the current item; other lines continue the previous clause.
	type clauseRaw struct {
		text string
		file string
		line int
	}
	var items [][]clauseRaw
	topKw := map[string]bool{"func": true, "spec": true, "ghost": true, "axiom": true, "funcspec": true, "lib": true, "ghostfield": true}
	clKw := map[string]bool{"requires": true, "ensures": true, "invariant": true, "decreases": true, "modifies": true,
		"canary": true, "props": true, "inline": true, "trusted": true, "loop": true, "call": true, "implements": true,
		"unroll": true, "overflow": true, "nooverflow": true, "pure": true, "free": true, "assume": true, "terminates": true, "callassume": true, "exit": true, "isolated": true, "callensure": true}
	for _, r := range raws {
		t := strings.TrimSpace(r.text)
		if t == "" {
			continue
		}
		w := firstWord(t)
		switch {
		case topKw[w]:
			items = append(items, []clauseRaw{{t, r.file, r.line}})
		case clKw[w]:
			if len(items) == 0 {
				return fmt.Errorf("%s:%d: clause outside item", r.file, r.line)
			}
			items[len(items)-1] = append(items[len(items)-1], clauseRaw{t, r.file, r.line})
		default:
			if len(items) == 0 {
				return fmt.Errorf("%s:%d: continuation outside item", r.file, r.line)
			}
			it := items[len(items)-1]
			it[len(it)-1].text += " " + t
		}
	}
	for _, it := range items {
		head := it[0]
		w := firstWord(head.text)
		switch w {
		case "ghostfield":
			// ghostfield bytes.Buffer.$out []rune
			f := strings.Fields(strings.TrimSpace(strings.TrimPrefix(head.text, "ghostfield")))
			if len(f) != 2 {
				return fmt.Errorf("%s:%d: bad ghostfield", head.file, head.line)
			}
			i := strings.LastIndex(f[0], ".")
			st := f[0][:i]
			if !strings.Contains(st, ".") {
				st = pkgName + "." + st
			}
			cs.GhostFields[st+"."+f[0][i+1:]] = &GhostField{Struct: st, Name: f[0][i+1:], Type: f[1], Pkg: pkgName}
		case "spec", "ghost":
			sf, err := parseSpecFunc(head.text, pkgName)
			if err != nil {
				return fmt.Errorf("%s:%d: %v", head.file, head.line, err)
			}
			sf.File, sf.Line = head.file, head.line
			cs.Specs[pkgName+"."+sf.Name] = sf
		case "axiom":
			rest := strings.TrimSpace(strings.TrimPrefix(head.text, "axiom"))
			name := ""
			if i := strings.Index(rest, ":"); i >= 0 && !strings.Contains(rest[:i], " ") && !strings.HasPrefix(rest[i:], "::") {
				name = rest[:i]
				rest = strings.TrimSpace(rest[i+1:])
			}
			e, err := parseSpec(rest)
			if err != nil {
				return fmt.Errorf("%s:%d: %v", head.file, head.line, err)
			}
			cs.Axioms = append(cs.Axioms, &Axiom{Name: name, PkgName: pkgName, Text: rest, Expr: e, File: head.file, Line: head.line})
		case "func", "funcspec", "lib":
			hdr := head.text
			c := &Contract{PkgName: pkgName, Loops: map[int]*LoopSpec{}, Calls: map[string]string{}, File: head.file, Line: head.line}
			if w == "funcspec" {
				c.FuncSpec = true
				hdr = "func " + strings.TrimSpace(strings.TrimPrefix(hdr, "funcspec"))
			}
			if w == "lib" {
				c.Lib = true
				c.Trusted = true
				c.TrustWhy = "library contract"
				hdr = strings.TrimSpace(strings.TrimPrefix(hdr, "lib"))
			}
			if err := parseFuncHeader(c, hdr); err != nil {
				return fmt.Errorf("%s:%d: %v", head.file, head.line, err)
			}
			curLoop := -1
			for _, cl := range it[1:] {
				cw := firstWord(cl.text)
				rest := strings.TrimSpace(strings.TrimPrefix(cl.text, cw))
				switch cw {
				case "props":
					c.Props = strings.Fields(strings.ReplaceAll(rest, ",", " "))
				case "inline":
					c.Inline = true
				case "pure":
					c.Pure = true
				case "terminates":
					c.Terminates = true
				case "trusted":
					c.Trusted = true
					c.TrustWhy = rest
				case "overflow":
					c.Overflow = true
				case "nooverflow":
					c.NoOverflow = true
				case "implements":
					c.Implements = append(c.Implements, strings.Fields(rest)...)
				case "free":
					// free x *int, y *bool
					for _, part := range splitTop(rest, ',') {
						f := strings.Fields(strings.TrimSpace(part))
						if len(f) < 2 {
							return fmt.Errorf("%s:%d: bad free decl", cl.file, cl.line)
						}
						c.Free = append(c.Free, ParamDecl{f[0], strings.Join(f[1:], "")})
					}
				case "callassume":
					// callassume scan: <expr over the callee's parameter names and this function's parameters>
					parts := strings.SplitN(rest, ":", 2)
					if len(parts) != 2 {
						return fmt.Errorf("%s:%d: bad callassume clause", cl.file, cl.line)
					}
					e, err := parseSpec(strings.TrimSpace(parts[1]))
					if err != nil {
						return fmt.Errorf("%s:%d: %v", cl.file, cl.line, err)
					}
					if c.CallAssumes == nil {
						c.CallAssumes = map[string][]*Clause{}
					}
					nm := strings.TrimSpace(parts[0])
					c.CallAssumes[nm] = append(c.CallAssumes[nm], &Clause{Kind: "callassume", Text: strings.TrimSpace(parts[1]), Expr: e, File: cl.file, Line: cl.line})
				case "callensure":
					// callensure f: <expr over the callee's parameter and result names and this function's parameters; old() is the state before the call>
					parts := strings.SplitN(rest, ":", 2)
					if len(parts) != 2 {
						return fmt.Errorf("%s:%d: bad callensure clause", cl.file, cl.line)
					}
					e, err := parseSpec(strings.TrimSpace(parts[1]))
					if err != nil {
						return fmt.Errorf("%s:%d: %v", cl.file, cl.line, err)
					}
					if c.CallEnsures == nil {
						c.CallEnsures = map[string][]*Clause{}
					}
					nm := strings.TrimSpace(parts[0])
					c.CallEnsures[nm] = append(c.CallEnsures[nm], &Clause{Kind: "callensure", Text: strings.TrimSpace(parts[1]), Expr: e, File: cl.file, Line: cl.line})
				case "call":
					// call name: spec X
					parts := strings.SplitN(rest, ":", 2)
					if len(parts) != 2 {
						return fmt.Errorf("%s:%d: bad call clause", cl.file, cl.line)
					}
					spec := strings.TrimSpace(parts[1])
					spec = strings.TrimSpace(strings.TrimPrefix(spec, "spec"))
					c.Calls[strings.TrimSpace(parts[0])] = spec
				case "loop":
					n := 0
					fmt.Sscanf(strings.TrimSuffix(rest, ":"), "%d", &n)
					curLoop = n
					if c.Loops[n] == nil {
						c.Loops[n] = &LoopSpec{Ordinal: n}
					}
				case "isolated":
					if curLoop < 0 {
						return fmt.Errorf("%s:%d: isolated outside loop", cl.file, cl.line)
					}
					c.Loops[curLoop].Isolated = true
				case "unroll":
					if curLoop < 0 {
						return fmt.Errorf("%s:%d: unroll outside loop", cl.file, cl.line)
					}
					fmt.Sscanf(rest, "%d", &c.Loops[curLoop].Unroll)
				default:
					m := clauseRe.FindStringSubmatch(cl.text)
					if m == nil {
						return fmt.Errorf("%s:%d: cannot parse clause %q", cl.file, cl.line, cl.text)
					}
					kind, lab, body := m[1], strings.Trim(m[2], "[]"), m[3]
					canary := false
					if kind == "canary" {
						canary = true
						kind = firstWord(body)
						body = strings.TrimSpace(strings.TrimPrefix(body, kind))
						if mm := regexp.MustCompile(`^\[([^\]]*)\]\s*(.*)$`).FindStringSubmatch(body); mm != nil {
							lab, body = mm[1], mm[2]
						}
					}
					clause := &Clause{Kind: kind, Text: body, File: cl.file, Line: cl.line, Canary: canary}
					if i := strings.Index(lab, ";"); i >= 0 {
						clause.Props = strings.Fields(strings.ReplaceAll(lab[i+1:], ",", " "))
						lab = strings.TrimSpace(lab[:i])
					}
					clause.Label = lab
					if kind != "modifies" {
						e, err := parseSpec(body)
						if err != nil {
							return fmt.Errorf("%s:%d: %v", cl.file, cl.line, err)
						}
						clause.Expr = e
					}
					switch kind {
					case "requires":
						c.Requires = append(c.Requires, clause)
					case "ensures":
						c.Ensures = append(c.Ensures, clause)
					case "assume":
						if curLoop >= 0 {
							c.Loops[curLoop].Assumes = append(c.Loops[curLoop].Assumes, clause)
						} else {
							c.Assumes = append(c.Assumes, clause)
						}
					case "modifies":
						c.HasMod = true
						c.Modifies = append(c.Modifies, clause)
					case "invariant":
						if curLoop < 0 {
							return fmt.Errorf("%s:%d: invariant outside loop", cl.file, cl.line)
						}
						c.Loops[curLoop].Invariants = append(c.Loops[curLoop].Invariants, clause)
					case "decreases":
						if curLoop < 0 {
							return fmt.Errorf("%s:%d: decreases outside loop", cl.file, cl.line)
						}
						c.Loops[curLoop].Decreases = clause
					case "exit":
						if curLoop < 0 {
							return fmt.Errorf("%s:%d: exit outside loop", cl.file, cl.line)
						}
						c.Loops[curLoop].Exits = append(c.Loops[curLoop].Exits, clause)
					}
				}
			}
			if c.FuncSpec {
				cs.FuncSpecs[c.Key] = c
			} else {
				if _, dup := cs.Funcs[c.Key]; dup {
					return fmt.Errorf("%s:%d: duplicate contract for %s", head.file, head.line, c.Key)
				}
				cs.Funcs[c.Key] = c
			}
		}
	}
	return nil
}

func firstWord(s string) string {
	for i, c := range s {
		if !(c >= 'a' && c <= 'z' || c >= 'A' && c <= 'Z') {
			return s[:i]
		}
	}
	return s
}

func splitTop(s string, sep rune) []string {
	var parts []string
	depth := 0
	start := 0
	for i, c := range s {
		switch c {
		case '(', '[', '{':
			depth++
		case ')', ']', '}':
			depth--
		default:
			if c == sep && depth == 0 {
				parts = append(parts, s[start:i])
				start = i + 1
			}
		}
	}
	if strings.TrimSpace(s[start:]) != "" {
		parts = append(parts, s[start:])
	}
	return parts
}

// parseFuncHeader parses "func (r *Runner) growTrack() (ok bool)" or "func pkg.Name(a int) bool" (lib) and
// optional closure suffix "$1".
func parseFuncHeader(c *Contract, hdr string) error {
	c.Header = hdr
	src := hdr
	closure := ""
	// closure suffix: name$1( -> strip
	if m := regexp.MustCompile(`(\$[0-9$]+)\(`).FindStringSubmatchIndex(src); m != nil {
		closure = src[m[2]:m[3]]
		src = src[:m[2]] + src[m[3]:]
	}
	// lib functions may be qualified: func unicode.IsSpace(r rune) bool ; method: func (b *bytes.Buffer) WriteRune(...)
	qual := ""
	if m := regexp.MustCompile(`^func\s+([A-Za-z0-9_/]+)\.([A-Za-z0-9_]+)\(`).FindStringSubmatch(src); m != nil {
		qual = m[1]
		src = strings.Replace(src, m[1]+".", "", 1)
	}
	fset := token.NewFileSet()
	f, err := parser.ParseFile(fset, "hdr.go", "package p\n"+src+"\n", 0)
	if err != nil {
		return fmt.Errorf("cannot parse function header %q: %v", hdr, err)
	}
	fd, ok := f.Decls[0].(*ast.FuncDecl)
	if !ok {
		return fmt.Errorf("not a function header: %q", hdr)
	}
	text := func(e ast.Expr) string {
		return src[fset.Position(e.Pos()).Offset-len("package p\n") : fset.Position(e.End()).Offset-len("package p\n")]
	}
	pk := c.PkgName
	if qual != "" {
		pk = qual
	}
	name := fd.Name.Name
	if fd.Recv != nil && len(fd.Recv.List) == 1 {
		rt := fd.Recv.List[0].Type
		rname := "_"
		if len(fd.Recv.List[0].Names) > 0 {
			rname = fd.Recv.List[0].Names[0].Name
		}
		c.Recv = &ParamDecl{rname, text(rt)}
		tt := text(rt)
		ptr := strings.HasPrefix(tt, "*")
		base := strings.TrimPrefix(tt, "*")
		if i := strings.LastIndex(base, "."); i >= 0 {
			pk = base[:i]
			base = base[i+1:]
		}
		if ptr {
			c.Key = pk + ".(*" + base + ")." + name
		} else {
			c.Key = pk + ".(" + base + ")." + name
		}
	} else {
		c.Key = pk + "." + name
	}
	c.Key += closure
	if fd.Type.Params != nil {
		for _, fl := range fd.Type.Params.List {
			if len(fl.Names) == 0 {
				c.Params = append(c.Params, ParamDecl{"_", text(fl.Type)})
			}
			for _, n := range fl.Names {
				c.Params = append(c.Params, ParamDecl{n.Name, text(fl.Type)})
			}
		}
	}
	if fd.Type.Results != nil {
		k := 0
		for _, fl := range fd.Type.Results.List {
			if len(fl.Names) == 0 {
				nm := "result"
				if k > 0 {
					nm = fmt.Sprintf("result%d", k)
				}
				c.Results = append(c.Results, ParamDecl{nm, text(fl.Type)})
				k++
			}
			for _, n := range fl.Names {
				c.Results = append(c.Results, ParamDecl{n.Name, text(fl.Type)})
				k++
			}
		}
	}
	return nil
}

// spec func Name(a int, s []rune) bool = body      |  ghost func M(r *Runner, p int) bool
func parseSpecFunc(text, pkg string) (*SpecFunc, error) {
	ghost := strings.HasPrefix(text, "ghost")
	rest := strings.TrimSpace(strings.TrimPrefix(strings.TrimPrefix(text, "spec"), "ghost"))
	rest = strings.TrimSpace(strings.TrimPrefix(strings.TrimSpace(rest), "func"))
	rest = strings.TrimSpace(strings.TrimPrefix(rest, "pred"))
	body := ""
	hdr := rest
	if !ghost {
		// find " = " at depth 0 after the closing paren of params
		depth := 0
		idx := -1
		for i := 0; i < len(rest); i++ {
			switch rest[i] {
			case '(', '[':
				depth++
			case ')', ']':
				depth--
			case '=':
				if depth == 0 && (i+1 >= len(rest) || rest[i+1] != '=') && (i == 0 || (rest[i-1] != '=' && rest[i-1] != '!' && rest[i-1] != '<' && rest[i-1] != '>')) {
					idx = i
				}
			}
			if idx >= 0 {
				break
			}
		}
		if idx < 0 {
			return nil, fmt.Errorf("spec func without body: %q", text)
		}
		hdr = strings.TrimSpace(rest[:idx])
		body = strings.TrimSpace(rest[idx+1:])
	}
	c := &Contract{PkgName: pkg}
	if err := parseFuncHeader(c, "func "+hdr); err != nil {
		return nil, err
	}
	sf := &SpecFunc{Name: strings.TrimPrefix(c.Key, pkg+"."), PkgName: pkg, Params: c.Params, Text: body}
	if len(c.Results) != 1 {
		return nil, fmt.Errorf("spec func must have one result: %q", text)
	}
	sf.Result = c.Results[0].Type
	if !ghost {
		e, err := parseSpec(body)
		if err != nil {
			return nil, err
		}
		sf.Body = e
	}
	return sf, nil
}
