package main

// Instruction-level encoding of go/ssa into SMT terms.

import (
	"fmt"
	"go/constant"
	"go/token"
	"go/types"
	"math/big"
	"regexp"
	"strings"

	"golang.org/x/tools/go/ssa"
)

// ---------- components ----------

type subComp struct {
	suffix string
	sort   string // scalar sort
	t      types.Type
	part   string // "", ref, off, len, cap  (slice parts)
}

// leafComps lists the scalar leaves of a value of type t stored at one location.
func (v *Verifier) leafComps(t types.Type) []subComp {
	switch kindOf(t) {
	case KSlice:
		return []subComp{{"#ref", "Int", t, "ref"}, {"#off", "Int", t, "off"}, {"#len", "Int", t, "len"}, {"#cap", "Int", t, "cap"}}
	case KStruct:
		st := t.Underlying().(*types.Struct)
		var out []subComp
		for i := 0; i < st.NumFields(); i++ {
			for _, sc := range v.leafComps(st.Field(i).Type()) {
				out = append(out, subComp{"." + st.Field(i).Name() + sc.suffix, sc.sort, sc.t, sc.part})
			}
		}
		return out
	case KArr:
		if _, isArr := t.Underlying().(*types.Array); isArr {
			// array value embedded: not flattened
			return []subComp{{"#arr", "Int", t, ""}}
		}
		return []subComp{{"", "Int", t, ""}}
	}
	return []subComp{{"", scalarSort(t), t, ""}}
}

func fieldCompName(structT types.Type, field string) string {
	return "H:" + typeName(structT) + "." + field
}

func arrSort(s string) string  { return "(Array Int " + s + ")" }
func arr2Sort(s string) string { return "(Array Int (Array Int " + s + "))" }

func (l *Loc) isElem() bool   { return l.Idx != "" }
func (l *Loc) isGlobal() bool { return strings.HasPrefix(l.Comp, "G:") }

// ---- two-layer heap ----
// Every indexed component X has an "old" layer (objects that existed at function entry) and a "new" layer
// "N|X" (objects allocated since). A write to a provably fresh object never touches the old layer, so facts
// about pre-existing objects (also quantified ones) stay syntactically valid across local allocations.

type refClass int

const (
	rcUnknown refClass = iota
	rcOld
	rcFresh
)

var plusConstRe = regexp.MustCompile(`^\(\+ (.*) ([0-9]+)\)$`)

func baseRef(t Term) Term {
	for {
		m := plusConstRe.FindStringSubmatch(t)
		if m == nil || !balanced(m[1]) {
			return t
		}
		t = m[1]
	}
}

func (v *Verifier) classify(ref Term) refClass {
	b := baseRef(ref)
	if b == "0" || b == "" {
		return rcOld
	}
	if v.knownNonNil[b] {
		return rcFresh
	}
	if v.oldRefs[b] {
		return rcOld
	}
	return rcUnknown
}

func layered(comp string) bool {
	return strings.HasPrefix(comp, "H:") || strings.HasPrefix(comp, "E:") || strings.HasPrefix(comp, "C:")
}

const entryNxt = "nxt@0"

// rd returns row `comp[ref]` (a scalar for field components, an array for element components).
func (fr *Frame) rd(st *State, comp, srt string, ref Term) Term {
	if !layered(comp) {
		return sel(fr.ctx.get(st, comp, srt), ref)
	}
	cls := fr.v.classify(ref)
	if st == fr.v.curRoot.entrySt {
		cls = rcOld // nothing has been allocated yet in the entry state: every object is an old object
	}
	switch cls {
	case rcOld:
		a := fr.ctx.get(st, comp, srt)
		// syntactic read-over-write: the row just written for this very reference
		if info, ok := fr.v.storeInfo[a]; ok && info.ref == ref {
			return info.row
		}
		t := sel(a, ref)
		if a == sym(comp+"@0") {
			fr.v.entryReads[t] = true
		}
		return t
	case rcFresh:
		a := fr.ctx.get(st, "N|"+comp, srt)
		// syntactic read-over-write for locally allocated objects: values flow through directly
		for {
			info, ok := fr.v.storeInfo[a]
			if !ok {
				break
			}
			if info.ref == ref {
				return info.row
			}
			if fr.v.knownNonNil[baseRef(info.ref)] && fr.v.knownNonNil[baseRef(ref)] && (baseRef(info.ref) != baseRef(ref) || info.ref != ref) {
				if baseRef(info.ref) != baseRef(ref) {
					a = info.base
					continue
				}
			}
			break
		}
		return sel(fr.ctx.get(st, "N|"+comp, srt), ref)
	}
	return ite(lt(baseRef(ref), entryNxt), sel(fr.ctx.get(st, comp, srt), ref), sel(fr.ctx.get(st, "N|"+comp, srt), ref))
}

// wr sets row comp[ref] := row.
func (fr *Frame) wr(st *State, comp, srt string, ref Term, row Term) *State {
	if !layered(comp) {
		fr.touch(comp, srt)
		a := fr.ctx.get(st, comp, srt)
		return st.with(comp, fr.nameTerm(store(a, ref, row), comp, srt))
	}
	switch fr.v.classify(ref) {
	case rcOld:
		fr.touch(comp, srt)
		a := fr.ctx.get(st, comp, srt)
		nt := fr.nameTerm(store(a, ref, row), comp, srt)
		fr.v.storeInfo[nt] = storeRec{base: a, ref: ref, row: row}
		return st.with(comp, nt)
	case rcFresh:
		fr.touch("N|"+comp, srt)
		a := fr.ctx.get(st, "N|"+comp, srt)
		nt := fr.nameTerm(store(a, ref, row), "N|"+comp, srt)
		fr.v.storeInfo[nt] = storeRec{base: a, ref: ref, row: row}
		return st.with("N|"+comp, nt)
	}
	fr.touch(comp, srt)
	fr.touch("N|"+comp, srt)
	isOld := lt(baseRef(ref), entryNxt)
	a := fr.ctx.get(st, comp, srt)
	n := fr.ctx.get(st, "N|"+comp, srt)
	st = st.with(comp, fr.nameTerm(ite(isOld, store(a, ref, row), a), comp, srt))
	st = st.with("N|"+comp, fr.nameTerm(ite(isOld, n, store(n, ref, row)), "N|"+comp, srt))
	return st
}

// read a scalar leaf at location l (+suffix)
func (fr *Frame) readLeaf(st *State, l *Loc, suffix, sort string) Term {
	comp := l.Comp + suffix
	switch {
	case l.isGlobal():
		t := fr.ctx.get(st, comp, sort)
		if t == sym(comp+"@0") {
			fr.v.entryReads[t] = true
		}
		return t
	case l.isElem():
		row := fr.rd(st, comp, arr2Sort(sort), l.Ref)
		var t Term
		if l.Off != "" && l.Off != "0" {
			t = sel(fr.v.shift(fr.ctx, row, l.Off, sort), l.Idx)
		} else {
			t = sel(row, l.Idx)
		}
		if fr.v.entryReads[row] {
			fr.v.entryReads[t] = true
		}
		return t
	default:
		return fr.rd(st, comp, arrSort(sort), l.Ref)
	}
}

func (fr *Frame) writeLeaf(st *State, l *Loc, suffix, sort string, val Term) *State {
	comp := l.Comp + suffix
	switch {
	case l.isGlobal():
		fr.touch(comp, sort)
		return st.with(comp, val)
	case l.isElem():
		row := fr.rd(st, comp, arr2Sort(sort), l.Ref)
		return fr.wr(st, comp, arr2Sort(sort), l.Ref, store(row, add(orZero(l.Off), l.Idx), val))
	default:
		return fr.wr(st, comp, arrSort(sort), l.Ref, val)
	}
}

func (fr *Frame) touch(comp, sort string) {
	for f := fr; f != nil; f = f.parent() {
		f.touched[comp] = sort
	}
}

func (fr *Frame) parent() *Frame {
	return fr.v.parentOf[fr]
}

// nameTerm introduces a constant for a (possibly large) term.
func (fr *Frame) nameTerm(t Term, hint, sort string) Term {
	if len(t) < 60 {
		return t
	}
	n := fr.ctx.freshConst(hint, sort)
	fr.ctx.assert(eq(n, t), "")
	return n
}

func (fr *Frame) factOnce(t Term) {
	if t == "true" || strings.Contains(t, "!q") {
		return // never assert facts about terms that mention bound variables
	}
	if fr.v.facts[t] {
		return
	}
	fr.v.facts[t] = true
	fr.ctx.assert(t, "")
}

// loadLoc reads a value of type t from location l.
func (fr *Frame) loadLoc(st *State, l *Loc, t types.Type) Val {
	switch kindOf(t) {
	case KInt:
		x := fr.readLeaf(st, l, "", "Int")
		fr.factOnce(rangeAssump(t, x))
		return Val{K: KInt, T: t, A: x}
	case KBool:
		return Val{K: KBool, T: t, A: fr.readLeaf(st, l, "", "Bool")}
	case KStr:
		s := fr.readLeaf(st, l, "", "Str")
		fr.v.strFactsOnce(fr.ctx, s)
		return Val{K: KStr, T: t, A: s}
	case KRef, KMap, KIface, KFunc:
		x := fr.readLeaf(st, l, "", "Int")
		fr.factOnce(le("0", x))
		if kindOf(t) == KRef || kindOf(t) == KMap {
			fr.factOnce(lt(x, st.nxt)) // heap closed under allocation
			fr.markOld(x)
		}
		return Val{K: kindOf(t), T: t, A: x}
	case KArr:
		if _, isArr := t.Underlying().(*types.Array); isArr {
			encFail("loading array value of type %s is not supported", t)
		}
		x := fr.readLeaf(st, l, "", "Int")
		fr.factOnce(le("0", x))
		fr.markOld(x)
		return Val{K: KArr, T: t, A: x}
	case KLoc:
		x := fr.readLeaf(st, l, "", "Int")
		fr.factOnce(le("0", x))
		fr.markOld(x)
		pt := t.Underlying().(*types.Pointer).Elem()
		return Val{K: KLoc, T: t, Loc: &Loc{Comp: "C:" + typeName(pt), Ref: x, T: pt}}
	case KSlice:
		sv := Val{K: KSlice, T: t,
			A:   fr.readLeaf(st, l, "#ref", "Int"),
			Off: fr.readLeaf(st, l, "#off", "Int"),
			Len: fr.readLeaf(st, l, "#len", "Int"),
			Cap: fr.readLeaf(st, l, "#cap", "Int")}
		fr.factOnce(sliceWF(sv))
		fr.factOnce(lt(sv.A, st.nxt))
		fr.markOld(sv.A)
		return sv
	case KStruct:
		stt := t.Underlying().(*types.Struct)
		res := Val{K: KStruct, T: t}
		for i := 0; i < stt.NumFields(); i++ {
			res.Fields = append(res.Fields, fr.loadLoc(st, fr.subLoc(l, t, i), stt.Field(i).Type()))
		}
		return res
	}
	encFail("load of unsupported type %s", t)
	return Val{}
}

// subLoc gives the location of field i inside a struct-typed location l of type t.
func (fr *Frame) subLoc(l *Loc, t types.Type, i int) *Loc {
	stt := t.Underlying().(*types.Struct)
	f := stt.Field(i)
	if strings.HasPrefix(l.Comp, "E:") || strings.HasPrefix(l.Comp, "G:") || strings.HasPrefix(l.Comp, "C:") {
		return &Loc{Comp: l.Comp + "." + f.Name(), Ref: l.Ref, Idx: l.Idx, Off: l.Off, T: f.Type()}
	}
	encFail("subLoc on object location %s", l.Comp)
	return nil
}

// storeLoc writes value v of type t to location l.
func (fr *Frame) storeLoc(st *State, l *Loc, t types.Type, v Val) *State {
	switch kindOf(t) {
	case KInt, KRef, KMap, KIface, KFunc:
		return fr.writeLeaf(st, l, "", "Int", v.A)
	case KArr:
		if _, isArr := t.Underlying().(*types.Array); isArr {
			encFail("storing array value of type %s is not supported", t)
		}
		return fr.writeLeaf(st, l, "", "Int", v.A)
	case KBool:
		return fr.writeLeaf(st, l, "", "Bool", v.A)
	case KStr:
		return fr.writeLeaf(st, l, "", "Str", v.A)
	case KLoc:
		if v.K == KLoc && !strings.HasPrefix(v.Loc.Comp, "C:") {
			encFail("storing interior pointer (%s) into the heap is not supported", v.Loc.Comp)
		}
		ref := "0"
		if v.K == KLoc {
			ref = orZero(v.Loc.Ref)
		}
		return fr.writeLeaf(st, l, "", "Int", ref)
	case KSlice:
		st = fr.writeLeaf(st, l, "#ref", "Int", v.A)
		st = fr.writeLeaf(st, l, "#off", "Int", v.Off)
		st = fr.writeLeaf(st, l, "#len", "Int", v.Len)
		st = fr.writeLeaf(st, l, "#cap", "Int", v.Cap)
		return st
	case KStruct:
		stt := t.Underlying().(*types.Struct)
		for i := 0; i < stt.NumFields(); i++ {
			st = fr.storeLoc(st, fr.subLoc(l, t, i), stt.Field(i).Type(), v.Fields[i])
		}
		return st
	}
	encFail("store of unsupported type %s", t)
	return nil
}

// object fields: pointer-to-struct ref + field index -> location or derived ref.
func (fr *Frame) fieldOf(ref Term, structT types.Type, i int) Val {
	stt := structT.Underlying().(*types.Struct)
	f := stt.Field(i)
	switch kindOf(f.Type()) {
	case KStruct:
		return Val{K: KRef, T: types.NewPointer(f.Type()), A: fr.v.derivedRef(ref, structT, f.Name())}
	case KArr:
		if _, isArr := f.Type().Underlying().(*types.Array); isArr {
			return Val{K: KArr, T: types.NewPointer(f.Type()), A: fr.v.derivedRef(ref, structT, f.Name())}
		}
	}
	return Val{K: KLoc, T: types.NewPointer(f.Type()), Loc: &Loc{Comp: fieldCompName(structT, f.Name()), Ref: ref, T: f.Type()}}
}

func (v *Verifier) derivedRef(ref Term, structT types.Type, field string) Term {
	key := typeName(structT) + "." + field
	k, ok := v.derived[key]
	if !ok {
		k = len(v.derived)
		v.derived[key] = k
	}
	off := new(big.Int).Lsh(big.NewInt(1), uint(50+k))
	return "(+ " + ref + " " + off.String() + ")"
}

// loadObj reads a whole struct value from an object ref.
func (fr *Frame) loadObj(st *State, ref Term, structT types.Type) Val {
	stt := structT.Underlying().(*types.Struct)
	res := Val{K: KStruct, T: structT}
	for i := 0; i < stt.NumFields(); i++ {
		fv := fr.fieldOf(ref, structT, i)
		ft := stt.Field(i).Type()
		switch fv.K {
		case KRef:
			res.Fields = append(res.Fields, fr.loadObj(st, fv.A, ft))
		case KArr:
			res.Fields = append(res.Fields, Val{K: KArr, T: ft, A: fv.A}) // array value aliasing its storage (read-only use)
		default:
			res.Fields = append(res.Fields, fr.loadLoc(st, fv.Loc, ft))
		}
	}
	return res
}

func (fr *Frame) storeObj(st *State, ref Term, structT types.Type, v Val) *State {
	stt := structT.Underlying().(*types.Struct)
	for i := 0; i < stt.NumFields(); i++ {
		fv := fr.fieldOf(ref, structT, i)
		ft := stt.Field(i).Type()
		switch fv.K {
		case KRef:
			st = fr.storeObj(st, fv.A, ft, v.Fields[i])
		case KArr:
			// copy array contents
			at := ft.Underlying().(*types.Array)
			if v.Fields[i].A == "0" { // zero array value
				st = fr.zeroElems(st, fv.A, at.Elem())
				continue
			}
			for _, sc := range fr.v.leafComps(at.Elem()) {
				comp := "E:" + typeName(at.Elem()) + sc.suffix
				row := fr.rd(st, comp, arr2Sort(sc.sort), v.Fields[i].A)
				st = fr.wr(st, comp, arr2Sort(sc.sort), fv.A, row)
			}
		default:
			st = fr.storeLoc(st, fv.Loc, ft, v.Fields[i])
		}
	}
	return st
}

// zeroVal returns the zero value of t.
func (fr *Frame) zeroVal(t types.Type) Val {
	switch kindOf(t) {
	case KInt:
		return Val{K: KInt, T: t, A: "0"}
	case KBool:
		return Val{K: KBool, T: t, A: "false"}
	case KStr:
		return Val{K: KStr, T: t, A: fr.v.strLit(fr.ctx, "")}
	case KRef, KMap, KIface, KFunc:
		return Val{K: kindOf(t), T: t, A: "0"}
	case KArr:
		if at, isArr := t.Underlying().(*types.Array); isArr {
			_ = at
			return Val{K: KArr, T: t, A: "0"} // zero array value: backing 0 is the all-zero array by convention
		}
		return Val{K: KArr, T: t, A: "0"}
	case KLoc:
		pt := t.Underlying().(*types.Pointer).Elem()
		return Val{K: KLoc, T: t, Loc: &Loc{Comp: "C:" + typeName(pt), Ref: "0", T: pt}}
	case KSlice:
		return Val{K: KSlice, T: t, A: "0", Off: "0", Len: "0", Cap: "0"}
	case KStruct:
		stt := t.Underlying().(*types.Struct)
		res := Val{K: KStruct, T: t}
		for i := 0; i < stt.NumFields(); i++ {
			res.Fields = append(res.Fields, fr.zeroVal(stt.Field(i).Type()))
		}
		return res
	}
	encFail("zero value of unsupported type %s", t)
	return Val{}
}

// ---------- values ----------

func (fr *Frame) value(x ssa.Value) Val {
	if v, ok := fr.vals[x]; ok {
		return v
	}
	switch x := x.(type) {
	case *ssa.Const:
		return fr.constVal(x)
	case *ssa.Global:
		pt := x.Type().Underlying().(*types.Pointer).Elem()
		name := "G:" + x.Pkg.Pkg.Name() + "." + x.Name()
		if kindOf(pt) == KStruct {
			// a package-level struct variable is an object at a fixed (old) reference
			g := fr.ctx.declare("gobj@"+x.Pkg.Pkg.Name()+"."+x.Name(), "Int")
			fr.factOnce(and(lt("0", g), lt(g, entryNxt)))
			fr.v.oldRefs[g] = true
			fr.v.knownNonNilGlobal(g)
			return Val{K: KRef, T: x.Type(), A: g}
		}
		return Val{K: KLoc, T: x.Type(), Loc: &Loc{Comp: name, T: pt}}
	case *ssa.Function:
		return Val{K: KFunc, T: x.Type(), A: fr.v.funcID(fr.ctx, x), Fn: x}
	case *ssa.Builtin:
		return Val{K: KFunc, T: x.Type(), A: "1", Fn: x}
	case *ssa.FreeVar:
		for i, fv := range fr.fn.FreeVars {
			if fv == x {
				return fr.free[i]
			}
		}
	case *ssa.Parameter:
		for i, p := range fr.fn.Params {
			if p == x {
				return fr.params[i]
			}
		}
	}
	encFail("value %s (%T) used before definition in %s", x.Name(), x, fr.fn.Name())
	return Val{}
}

func (fr *Frame) constVal(c *ssa.Const) Val {
	t := c.Type()
	if c.Value == nil {
		return fr.zeroVal(t)
	}
	switch kindOf(t) {
	case KInt:
		if c.Value.Kind() == constant.Int {
			bi, _ := new(big.Int).SetString(c.Value.ExactString(), 10)
			if bi != nil {
				return Val{K: KInt, T: t, A: numBig(bi)}
			}
		}
		return Val{K: KInt, T: t, A: num(c.Int64())}
	case KBool:
		if constant.BoolVal(c.Value) {
			return Val{K: KBool, T: t, A: "true"}
		}
		return Val{K: KBool, T: t, A: "false"}
	case KStr:
		return Val{K: KStr, T: t, A: fr.v.strLit(fr.ctx, constant.StringVal(c.Value))}
	}
	// floats etc: opaque
	return Val{K: KIface, T: t, A: fr.ctx.freshConst("const", "Int")}
}

// ---------- instruction dispatch ----------

func (fr *Frame) instr(ins ssa.Instruction, st *State, reach Term) *State {
	defer func() {
		if r := recover(); r != nil {
			if e, ok := r.(EncError); ok {
				if !strings.Contains(e.msg, " @ ") {
					e.msg = fmt.Sprintf("%s @ %s: %s", e.msg, fr.posOf(ins), ins.String())
				}
				panic(e)
			}
			panic(r)
		}
	}()
	switch i := ins.(type) {
	case *ssa.DebugRef:
		return st
	case *ssa.Alloc:
		return fr.alloc(i, st, reach)
	case *ssa.FieldAddr:
		x := fr.value(i.X)
		pt := i.X.Type().Underlying().(*types.Pointer).Elem()
		switch x.K {
		case KRef:
			fr.nilCheck(i, x.A, reach)
			fr.vals[i] = fr.fieldOf(x.A, pt, i.Field)
		case KLoc:
			fr.vals[i] = Val{K: KLoc, T: i.Type(), Loc: fr.subLoc(x.Loc, pt, i.Field)}
			ft := pt.Underlying().(*types.Struct).Field(i.Field).Type()
			if kindOf(ft) == KStruct {
				// struct inside element: keep as location of struct type
			}
		default:
			encFail("FieldAddr on %v", x.K)
		}
		return st
	case *ssa.Field:
		x := fr.value(i.X)
		if x.K != KStruct {
			encFail("Field on non-struct value")
		}
		fr.vals[i] = x.Fields[i.Field]
		return st
	case *ssa.IndexAddr:
		return fr.indexAddr(i, st, reach)
	case *ssa.Index:
		return fr.index(i, st, reach)
	case *ssa.UnOp:
		return fr.unop(i, st, reach)
	case *ssa.Store:
		a := fr.value(i.Addr)
		v := fr.value(i.Val)
		pt := i.Addr.Type().Underlying().(*types.Pointer).Elem()
		switch a.K {
		case KRef:
			return fr.storeObj(st, a.A, pt, v)
		case KLoc:
			if a.Loc.Ref != "" && !a.Loc.isGlobal() && strings.HasPrefix(a.Loc.Comp, "C:") {
				fr.nilCheck(i, a.Loc.Ref, reach)
			}
			return fr.storeLoc(st, a.Loc, pt, v)
		}
		encFail("store through %v", a.K)
	case *ssa.BinOp:
		fr.vals[i] = fr.binop(i, i.Op, fr.value(i.X), fr.value(i.Y), i.Type(), reach)
		return st
	case *ssa.Phi:
		encFail("phi in the middle of a block")
	case *ssa.Call:
		return fr.call(i, st, reach)
	case *ssa.Slice:
		return fr.slice(i, st, reach)
	case *ssa.MakeSlice:
		return fr.makeSlice(i, st, reach)
	case *ssa.Convert:
		if kindOf(i.X.Type()) == KStr && kindOf(i.Type()) == KSlice {
			// []rune(s) / []byte(s) allocate
			ref := st.nxt
			st = st.withNxt(fr.bumpNxt(st.nxt))
			fr.v.knownNonNil[ref] = true
			fr.vals[i] = fr.v.strToSliceAt(fr, fr.value(i.X), i.Type(), st, ref)
			return st
		}
		fr.vals[i] = fr.convert(i, fr.value(i.X), i.X.Type(), i.Type(), st, reach)
		return st
	case *ssa.ChangeType:
		v := fr.value(i.X)
		v.T = i.Type()
		fr.vals[i] = v
		return st
	case *ssa.ChangeInterface:
		v := fr.value(i.X)
		v.T = i.Type()
		fr.vals[i] = v
		return st
	case *ssa.MakeInterface:
		x := fr.value(i.X)
		// boxed value: identity derived from the boxed value when it is a pointer or named constant, else fresh non-nil
		var id Term
		switch x.K {
		case KRef:
			id = "(+ 1 (* 2 " + x.A + "))" // distinct from nil even when the pointer is nil
		default:
			id = fr.ctx.freshConst("iface", "Int")
			fr.ctx.assert(lt("0", id), "")
		}
		fr.vals[i] = Val{K: KIface, T: i.Type(), A: id, Fields: []Val{x}}
		return st
	case *ssa.TypeAssert:
		x := fr.value(i.X)
		res := fr.freshVal(i.AssertedType, "ta")
		if len(x.Fields) == 1 && types.Identical(x.Fields[0].T, i.AssertedType) {
			res = x.Fields[0]
		}
		if i.CommaOk {
			ok := fr.ctx.freshConst("taok", "Bool")
			fr.vals[i] = Val{K: KTuple, T: i.Type(), Fields: []Val{res, {K: KBool, A: ok}}}
		} else {
			fr.note("type assertion without ok assumed to succeed")
			fr.vals[i] = res
		}
		return st
	case *ssa.Extract:
		t := fr.value(i.Tuple)
		if t.K != KTuple {
			encFail("extract from non-tuple")
		}
		fr.vals[i] = t.Fields[i.Index]
		return st
	case *ssa.MakeClosure:
		fn := i.Fn.(*ssa.Function)
		var binds []Val
		for _, b := range i.Bindings {
			binds = append(binds, fr.value(b))
		}
		fr.vals[i] = Val{K: KFunc, T: i.Type(), A: fr.v.funcID(fr.ctx, fn), Fn: fn, Bind: binds}
		return st
	case *ssa.MakeMap:
		ref := st.nxt
		st = st.withNxt(fr.bumpNxt(st.nxt))
		fr.vals[i] = Val{K: KMap, T: i.Type(), A: ref}
		st = fr.mapInit(st, i.Type(), ref)
		return st
	case *ssa.Lookup:
		return fr.lookup(i, st, reach)
	case *ssa.MapUpdate:
		return fr.mapUpdate(i, st, reach)
	case *ssa.Range:
		return fr.rangeInit(i, st, reach)
	case *ssa.Next:
		return fr.next(i, st, reach)
	case *ssa.If:
		c := fr.value(i.Cond)
		b := i.Block()
		fr.setEdge(b, b.Succs[0], and(reach, c.A), st)
		fr.setEdge(b, b.Succs[1], and(reach, not(c.A)), st)
		return st
	case *ssa.Jump:
		b := i.Block()
		fr.setEdge(b, b.Succs[0], reach, st)
		return st
	case *ssa.Return:
		var rs []Val
		for _, r := range i.Results {
			rs = append(rs, fr.value(r))
		}
		st = fr.runDeferred(st, reach)
		fr.ret(i, st, reach, rs)
		return st
	case *ssa.Panic:
		fr.addObl("panic", "", not(reach), "explicit panic is unreachable: "+ins.String(), fr.posOf(ins), fr.safetyProps(), false)
		return nil
	case *ssa.RunDefers:
		return st
	case *ssa.Defer:
		fr.deferred = append(fr.deferred, i)
		return st
	case *ssa.Go:
		fr.note("go statement ignored (concurrency out of scope)")
		return st
	case *ssa.MultiConvert:
		encFail("MultiConvert unsupported")
	case *ssa.SliceToArrayPointer:
		encFail("SliceToArrayPointer unsupported")
	case *ssa.Select, *ssa.Send, *ssa.MakeChan:
		encFail("channel operations unsupported")
	}
	encFail("unsupported instruction %T", ins)
	return nil
}

func (fr *Frame) note(s string) {
	fr.v.note(fr.objPfx + ": " + s)
}

func (fr *Frame) setEdge(from, to *ssa.BasicBlock, cond Term, st *State) {
	if fr.isBackEdge(from, to) {
		fr.out[from] = st
		fr.backEdge(from, to, cond, st)
		return
	}
	fr.edgeCond[[2]*ssa.BasicBlock{from, to}] = cond
}

func (fr *Frame) bumpNxt(n Term) Term {
	nn := fr.ctx.freshConst("nxt", "Int")
	fr.ctx.assert(eq(nn, add(n, "1")), "")
	return nn
}

func (fr *Frame) nilCheck(ins ssa.Instruction, ref Term, reach Term) {
	if ref == "" {
		return
	}
	if strings.HasPrefix(ref, "(+ ") { // derived refs (embedded structs) are never nil
		return
	}
	if b, ok := fr.nonNil[ref]; ok && (b == fr.cur || b.Dominates(fr.cur)) {
		return
	}
	if fr.v.knownNonNil[ref] || fr.v.nonNilGlobals[ref] {
		return
	}
	fr.nonNil[ref] = fr.cur
	fr.addObl("nil", "", implies(reach, not(eq(ref, "0"))), "nil dereference: "+ins.String(), fr.posOf(ins), fr.safetyProps(), false)
	fr.ctx.assert(implies(reach, not(eq(ref, "0"))), "after nil check")
}

func (fr *Frame) alloc(i *ssa.Alloc, st *State, reach Term) *State {
	pt := i.Type().Underlying().(*types.Pointer).Elem()
	ref := st.nxt
	st = st.withNxt(fr.bumpNxt(st.nxt))
	fr.v.knownNonNil[ref] = true
	switch kindOf(pt) {
	case KStruct:
		fr.vals[i] = Val{K: KRef, T: i.Type(), A: ref}
		st = fr.storeObj(st, ref, pt, fr.zeroVal(pt))
		// declared ghost fields of a new object start at zero (e.g. the output length of a bytes.Buffer)
		tn := typeName(pt)
		for _, gf := range fr.v.contracts.GhostFields {
			if gf.Struct == tn && (gf.Type == "int" || gf.Type == "bool") {
				l := &Loc{Comp: "H:" + tn + "." + gf.Name, Ref: ref}
				if gf.Type == "int" {
					st = fr.writeLeaf(st, l, "", "Int", "0")
				} else {
					st = fr.writeLeaf(st, l, "", "Bool", "false")
				}
			}
		}
		return st
	case KArr:
		if at, ok := pt.Underlying().(*types.Array); ok {
			fr.vals[i] = Val{K: KArr, T: i.Type(), A: ref}
			return fr.zeroElems(st, ref, at.Elem())
		}
	}
	l := &Loc{Comp: "C:" + typeName(pt), Ref: ref, T: pt}
	fr.vals[i] = Val{K: KLoc, T: i.Type(), Loc: l}
	return fr.storeLoc(st, l, pt, fr.zeroVal(pt))
}

func zeroTermOf(v *Verifier, c *Ctx, sc subComp) Term {
	switch sc.sort {
	case "Bool":
		return "false"
	case "Str":
		return v.strLit(c, "")
	}
	return "0"
}

func (fr *Frame) zeroElems(st *State, ref Term, elem types.Type) *State {
	for _, sc := range fr.v.leafComps(elem) {
		comp := "E:" + typeName(elem) + sc.suffix
		srt := arr2Sort(sc.sort)
		z := fmt.Sprintf("((as const %s) %s)", arrSort(sc.sort), zeroTermOf(fr.v, fr.ctx, sc))
		st = fr.wr(st, comp, srt, ref, z)
	}
	return st
}

func (fr *Frame) elemLoc(base Val, idx Term) (*Loc, types.Type) {
	switch base.K {
	case KSlice:
		et := base.T.Underlying().(*types.Slice).Elem()
		return &Loc{Comp: "E:" + typeName(et), Ref: base.A, Idx: idx, Off: base.Off, T: et}, et
	case KArr:
		var at *types.Array
		if p, ok := base.T.Underlying().(*types.Pointer); ok {
			at = p.Elem().Underlying().(*types.Array)
		} else {
			at = base.T.Underlying().(*types.Array)
		}
		return &Loc{Comp: "E:" + typeName(at.Elem()), Ref: base.A, Idx: idx, T: at.Elem()}, at.Elem()
	}
	encFail("indexing value of kind %v", base.K)
	return nil, nil
}

func (fr *Frame) lenOf(base Val) Term {
	switch base.K {
	case KSlice:
		return base.Len
	case KArr:
		var at *types.Array
		if p, ok := base.T.Underlying().(*types.Pointer); ok {
			at = p.Elem().Underlying().(*types.Array)
		} else {
			at = base.T.Underlying().(*types.Array)
		}
		return num(at.Len())
	case KStr:
		return app("slen", base.A)
	}
	encFail("len of kind %v", base.K)
	return ""
}

func (fr *Frame) indexAddr(i *ssa.IndexAddr, st *State, reach Term) *State {
	x := fr.value(i.X)
	idx := fr.value(i.Index)
	n := fr.lenOf(x)
	fr.addObl("index", "", implies(reach, and(le("0", idx.A), lt(idx.A, n))), "index in range: "+i.String(), fr.posOf(i), fr.safetyProps(), false)
	fr.ctx.assert(implies(reach, and(le("0", idx.A), lt(idx.A, n))), "after index check")
	l, et := fr.elemLoc(x, idx.A)
	fr.vals[i] = Val{K: KLoc, T: i.Type(), Loc: l}
	_ = et
	return st
}

func (fr *Frame) index(i *ssa.Index, st *State, reach Term) *State {
	x := fr.value(i.X)
	idx := fr.value(i.Index)
	n := fr.lenOf(x)
	fr.addObl("index", "", implies(reach, and(le("0", idx.A), lt(idx.A, n))), "index in range: "+i.String(), fr.posOf(i), fr.safetyProps(), false)
	fr.ctx.assert(implies(reach, and(le("0", idx.A), lt(idx.A, n))), "after index check")
	switch x.K {
	case KStr:
		b := app("sbyte", x.A, idx.A)
		fr.vals[i] = Val{K: KInt, T: i.Type(), A: b}
	case KArr:
		l, et := fr.elemLoc(x, idx.A)
		fr.vals[i] = fr.loadLoc(st, l, et)
	default:
		encFail("Index on %v", x.K)
	}
	return st
}

func (fr *Frame) unop(i *ssa.UnOp, st *State, reach Term) *State {
	x := fr.value(i.X)
	switch i.Op {
	case token.MUL: // load
		pt := i.X.Type().Underlying().(*types.Pointer).Elem()
		switch x.K {
		case KRef:
			fr.nilCheck(i, x.A, reach)
			fr.vals[i] = fr.loadObj(st, x.A, pt)
		case KLoc:
			if strings.HasPrefix(x.Loc.Comp, "C:") {
				fr.nilCheck(i, x.Loc.Ref, reach)
			}
			fr.vals[i] = fr.loadLoc(st, x.Loc, pt)
		case KArr:
			// array value read: alias of storage (arrays are only read through Index)
			fr.vals[i] = Val{K: KArr, T: pt, A: x.A}
		default:
			encFail("load through %v", x.K)
		}
	case token.NOT:
		fr.vals[i] = Val{K: KBool, T: i.Type(), A: not(x.A)}
	case token.SUB:
		r := "(- " + x.A + ")"
		if isUnsigned(i.Type()) {
			r = fr.wrap(r, i.Type())
		} else {
			fr.overflowCheck(i, r, i.Type(), reach)
		}
		fr.vals[i] = Val{K: KInt, T: i.Type(), A: r}
	case token.XOR: // bitwise complement
		if isUnsigned(i.Type()) {
			_, hi, _ := intRange(i.Type())
			fr.vals[i] = Val{K: KInt, T: i.Type(), A: "(- " + hi.String() + " " + x.A + ")"}
		} else {
			fr.vals[i] = Val{K: KInt, T: i.Type(), A: "(- (- " + x.A + ") 1)"}
		}
	default:
		encFail("unsupported unary operator %s", i.Op)
	}
	return st
}

func (fr *Frame) wrap(x Term, t types.Type) Term {
	lo, hi, ok := intRange(t)
	if !ok {
		return x
	}
	size := new(big.Int).Add(new(big.Int).Sub(hi, lo), big.NewInt(1))
	if lo.Sign() == 0 {
		return "(mod " + x + " " + size.String() + ")"
	}
	half := new(big.Int).Neg(lo)
	return "(- (mod (+ " + x + " " + half.String() + ") " + size.String() + ") " + half.String() + ")"
}

func (fr *Frame) overflowOn() bool {
	root := fr.rootFrame()
	if root == nil || root.con == nil {
		return false
	}
	return root.con.Overflow
}

// overflowCheck: either an obligation (when enabled) or a recorded assumption that signed arithmetic does not overflow.
func (fr *Frame) overflowCheck(ins ssa.Instruction, r Term, t types.Type, reach Term) {
	lo, hi, ok := intRange(t)
	if !ok {
		return
	}
	in := and(le(numBig(lo), r), le(r, numBig(hi)))
	if fr.overflowOn() {
		fr.addObl("overflow", "", implies(reach, in), "no overflow: "+ins.String(), fr.posOf(ins), fr.safetyProps(), false)
	} else {
		fr.v.assumeMath[fr.rootFrame().objPfx] = true
	}
}

func pow2(k int64) *big.Int { return new(big.Int).Lsh(big.NewInt(1), uint(k)) }

func constOf(t Term) (*big.Int, bool) {
	s := t
	neg := false
	if strings.HasPrefix(s, "(- ") && strings.HasSuffix(s, ")") {
		s = s[3 : len(s)-1]
		neg = true
	}
	bi, ok := new(big.Int).SetString(s, 10)
	if !ok {
		return nil, false
	}
	if neg {
		bi.Neg(bi)
	}
	return bi, true
}

func tdiv(a, b Term) Term {
	// Go truncated division
	if bc, ok := constOf(b); ok && bc.Sign() > 0 {
		return ite("(>= "+a+" 0)", "(div "+a+" "+b+")", "(- (div (- "+a+") "+b+"))")
	}
	return ite("(>= "+a+" 0)",
		ite("(> "+b+" 0)", "(div "+a+" "+b+")", "(- (div "+a+" (- "+b+")))"),
		ite("(> "+b+" 0)", "(- (div (- "+a+") "+b+"))", "(div (- "+a+") (- "+b+"))"))
}

func trem(a, b Term) Term {
	if bc, ok := constOf(b); ok && bc.Sign() > 0 {
		return ite("(>= "+a+" 0)", "(mod "+a+" "+b+")", "(- (mod (- "+a+") "+b+"))")
	}
	return "(- " + a + " (* " + b + " " + tdiv(a, b) + "))"
}

func (fr *Frame) bitAndConst(x Term, mask *big.Int, t types.Type) Term {
	// x & mask for non-negative mask: sum of bits; contiguous low mask => mod
	if mask.Sign() == 0 {
		return "0"
	}
	m1 := new(big.Int).Add(mask, big.NewInt(1))
	if new(big.Int).And(m1, mask).Sign() == 0 { // mask = 2^k - 1
		return "(mod " + x + " " + m1.String() + ")"
	}
	var parts []Term
	for k := 0; k < mask.BitLen(); k++ {
		if mask.Bit(k) == 1 {
			p := pow2(int64(k)).String()
			parts = append(parts, "(* "+p+" (mod (div "+x+" "+p+") 2))")
		}
	}
	if len(parts) == 1 {
		return parts[0]
	}
	return "(+ " + strings.Join(parts, " ") + ")"
}

func (fr *Frame) binop(ins ssa.Instruction, op token.Token, x, y Val, rt types.Type, reach Term) Val {
	switch op {
	case token.EQL, token.NEQ:
		var e Term
		switch {
		case x.K == KIface || y.K == KIface || x.K == KFunc:
			e = eq(x.A, y.A)
		case x.K == KSlice:
			e = eq(x.A, y.A) // only comparison with nil is legal
			if y.K == KSlice && y.A != "0" && x.A != "0" {
				encFail("slice comparison")
			}
		default:
			e = eqVal(x, y)
		}
		if op == token.NEQ {
			e = not(e)
		}
		return Val{K: KBool, T: rt, A: e}
	case token.LSS, token.LEQ, token.GTR, token.GEQ:
		if x.K == KStr {
			f := fr.ctx.declareFun("strless", []string{"Str", "Str"}, "Bool")
			var e Term
			switch op {
			case token.LSS:
				e = app(f, x.A, y.A)
			case token.GTR:
				e = app(f, y.A, x.A)
			case token.LEQ:
				e = not(app(f, y.A, x.A))
			case token.GEQ:
				e = not(app(f, x.A, y.A))
			}
			return Val{K: KBool, T: rt, A: e}
		}
		if x.K != KInt {
			encFail("ordered comparison on kind %v", x.K)
		}
		o := map[token.Token]string{token.LSS: "<", token.LEQ: "<=", token.GTR: ">", token.GEQ: ">="}[op]
		return Val{K: KBool, T: rt, A: "(" + o + " " + x.A + " " + y.A + ")"}
	}
	if x.K == KBool {
		switch op {
		case token.AND:
			return Val{K: KBool, T: rt, A: and(x.A, y.A)}
		case token.OR:
			return Val{K: KBool, T: rt, A: or(x.A, y.A)}
		case token.XOR:
			return Val{K: KBool, T: rt, A: not(eq(x.A, y.A))}
		}
	}
	if x.K == KStr && op == token.ADD {
		f := fr.ctx.declareFun("sconcat", []string{"Str", "Str"}, "Str")
		r := app(f, x.A, y.A)
		fr.factOnce(eq(app("slen", r), add(app("slen", x.A), app("slen", y.A))))
		fr.v.strFactsOnce(fr.ctx, r)
		return Val{K: KStr, T: rt, A: r}
	}
	if x.K != KInt {
		if x.K == KIface { // floats etc.
			return Val{K: KIface, T: rt, A: fr.ctx.freshConst("opaque", "Int")}
		}
		encFail("binary operator %s on kind %v", op, x.K)
	}
	uns := isUnsigned(rt)
	var r Term
	switch op {
	case token.ADD:
		r = "(+ " + x.A + " " + y.A + ")"
	case token.SUB:
		r = "(- " + x.A + " " + y.A + ")"
	case token.MUL:
		r = "(* " + x.A + " " + y.A + ")"
	case token.QUO:
		fr.addObl("div", "", implies(reach, not(eq(y.A, "0"))), "division by zero: "+ins.String(), fr.posOf(ins), fr.safetyProps(), false)
		if uns {
			return Val{K: KInt, T: rt, A: "(div " + x.A + " " + y.A + ")"}
		}
		if yc, ok := constOf(y.A); ok && yc.Sign() > 0 {
			return Val{K: KInt, T: rt, A: tdiv(x.A, y.A)} // cannot overflow
		}
		r = tdiv(x.A, y.A)
	case token.REM:
		fr.addObl("div", "", implies(reach, not(eq(y.A, "0"))), "division by zero: "+ins.String(), fr.posOf(ins), fr.safetyProps(), false)
		if uns {
			return Val{K: KInt, T: rt, A: "(mod " + x.A + " " + y.A + ")"}
		}
		return Val{K: KInt, T: rt, A: trem(x.A, y.A)}
	case token.SHL:
		if yc, ok := constOf(y.A); ok && yc.IsInt64() && yc.Int64() < 64 {
			r = "(* " + x.A + " " + pow2(yc.Int64()).String() + ")"
			if !uns {
				// signed shift wraps silently in Go; model exactly
				return Val{K: KInt, T: rt, A: fr.wrap(r, rt)}
			}
		} else if x.A == "1" && strings.HasPrefix(y.A, "(mod ") && strings.HasSuffix(y.A, " 64)") {
			// 1 << (k % 64): a single bit of a 64-bit word
			fr.v.bitAxioms()
			return Val{K: KInt, T: rt, A: app("pow2", y.A)}
		} else {
			f := fr.ctx.declareFun("pow2", []string{"Int"}, "Int")
			fr.factOnce("(forall ((k! Int)) (! (=> (and (<= 0 k!) (< k! 64)) (and (> (pow2 k!) 0) (= (pow2 (+ k! 1)) (* 2 (pow2 k!))))) :pattern ((pow2 k!))))")
			fr.factOnce("(= (pow2 0) 1)")
			r = "(* " + x.A + " " + app(f, y.A) + ")"
			fr.note("variable shift modelled with uninterpreted pow2")
			return Val{K: KInt, T: rt, A: ite("(>= "+y.A+" 64)", "0", fr.wrap(r, rt))}
		}
	case token.SHR:
		if yc, ok := constOf(y.A); ok && yc.IsInt64() && yc.Int64() < 64 {
			// floor division is arithmetic shift for signed, logical for unsigned (non-negative)
			return Val{K: KInt, T: rt, A: "(div " + x.A + " " + pow2(yc.Int64()).String() + ")"}
		}
		f := fr.ctx.declareFun("shr", []string{"Int", "Int"}, "Int")
		return Val{K: KInt, T: rt, A: app(f, x.A, y.A)}
	case token.AND:
		if yc, ok := constOf(y.A); ok && yc.Sign() >= 0 {
			return Val{K: KInt, T: rt, A: fr.bitAndConst(x.A, yc, rt)}
		}
		if xc, ok := constOf(x.A); ok && xc.Sign() >= 0 {
			return Val{K: KInt, T: rt, A: fr.bitAndConst(y.A, xc, rt)}
		}
		fr.v.bitAxioms()
		f := fr.ctx.declareFun("band", []string{"Int", "Int"}, "Int")
		rr := app(f, x.A, y.A)
		fr.factOnce(implies(and(le("0", x.A), le("0", y.A)), and(le("0", rr), le(rr, x.A), le(rr, y.A))))
		return Val{K: KInt, T: rt, A: rr}
	case token.OR:
		if yc, ok := constOf(y.A); ok && yc.Sign() >= 0 {
			return Val{K: KInt, T: rt, A: "(+ " + x.A + " (- " + yc.String() + " " + fr.bitAndConst(x.A, yc, rt) + "))"}
		}
		if xc, ok := constOf(x.A); ok && xc.Sign() >= 0 {
			return Val{K: KInt, T: rt, A: "(+ " + y.A + " (- " + xc.String() + " " + fr.bitAndConst(y.A, xc, rt) + "))"}
		}
		fr.v.bitAxioms()
		f := fr.ctx.declareFun("bor", []string{"Int", "Int"}, "Int")
		rr := app(f, x.A, y.A)
		fr.factOnce(implies(and(le("0", x.A), le("0", y.A)), and(le(x.A, rr), le(y.A, rr), le(rr, add(x.A, y.A)))))
		return Val{K: KInt, T: rt, A: rr}
	case token.XOR:
		f := fr.ctx.declareFun("bxor", []string{"Int", "Int"}, "Int")
		return Val{K: KInt, T: rt, A: app(f, x.A, y.A)}
	case token.AND_NOT:
		if yc, ok := constOf(y.A); ok && yc.Sign() >= 0 {
			return Val{K: KInt, T: rt, A: "(- " + x.A + " " + fr.bitAndConst(x.A, yc, rt) + ")"}
		}
		f := fr.ctx.declareFun("bandnot", []string{"Int", "Int"}, "Int")
		return Val{K: KInt, T: rt, A: app(f, x.A, y.A)}
	default:
		encFail("unsupported binary operator %s", op)
	}
	if uns {
		return Val{K: KInt, T: rt, A: fr.wrap(r, rt)}
	}
	lo, hi, ok := intRange(rt)
	if ok {
		// narrow signed types (rune, int32, int8...) wrap silently: model exactly when the type is narrower than int
		if hi.Cmp(pow2(62)) < 0 {
			_ = lo
			return Val{K: KInt, T: rt, A: fr.wrapIfNeeded(r, x, y, op, rt)}
		}
		fr.overflowCheck(ins, r, rt, reach)
	}
	return Val{K: KInt, T: rt, A: r}
}

// wrapIfNeeded wraps narrow signed arithmetic; rune +/- small constants cannot overflow for values in [-2^31+k, 2^31-k) but we stay exact.
func (fr *Frame) wrapIfNeeded(r Term, x, y Val, op token.Token, rt types.Type) Term {
	return fr.wrap(r, rt)
}

func (fr *Frame) convert(ins ssa.Instruction, x Val, from, to types.Type, st *State, reach Term) Val {
	fk, tk := kindOf(from), kindOf(to)
	switch {
	case fk == KInt && tk == KInt:
		flo, fhi, ok1 := intRange(from)
		tlo, thi, ok2 := intRange(to)
		if ok1 && ok2 && flo.Cmp(tlo) >= 0 && fhi.Cmp(thi) <= 0 {
			return Val{K: KInt, T: to, A: x.A}
		}
		if c, ok := constOf(x.A); ok && ok2 && c.Cmp(tlo) >= 0 && c.Cmp(thi) <= 0 {
			return Val{K: KInt, T: to, A: x.A}
		}
		// piecewise-linear conversion when the source range spans less than one period of the target
		if ok1 && ok2 {
			size := new(big.Int).Add(new(big.Int).Sub(thi, tlo), big.NewInt(1))
			if new(big.Int).Sub(fhi, flo).Cmp(size) < 0 || true {
				negSize := new(big.Int).Neg(size)
				if tlo.Sign() == 0 && flo.Cmp(negSize) >= 0 && fhi.Cmp(size) < 0 {
					return Val{K: KInt, T: to, A: fr.nameTerm(ite("(< "+x.A+" 0)", "(+ "+x.A+" "+size.String()+")", x.A), "conv", "Int")}
				}
				if tlo.Sign() < 0 && flo.Sign() >= 0 && fhi.Cmp(new(big.Int).Add(thi, size)) <= 0 {
					return Val{K: KInt, T: to, A: fr.nameTerm(ite("(> "+x.A+" "+thi.String()+")", "(- "+x.A+" "+size.String()+")", x.A), "conv", "Int")}
				}
			}
		}
		w := fr.nameTerm(fr.wrap(x.A, to), "conv", "Int")
		return Val{K: KInt, T: to, A: w}
	case fk == KInt && tk == KStr:
		f := fr.ctx.declareFun("str_of_rune", []string{"Int"}, "Str")
		r := app(f, x.A)
		fr.v.strFactsOnce(fr.ctx, r)
		return Val{K: KStr, T: to, A: r}
	case fk == KStr && tk == KSlice:
		// []rune(s) or []byte(s): fresh backing array described by the decode spec
		return fr.v.strToSlice(fr, x, to, st)
	case fk == KSlice && tk == KStr:
		return fr.v.sliceToStr(fr, x, from, to, st)
	case fk == tk:
		x.T = to
		return x
	case tk == KIface || fk == KIface:
		return Val{K: tk, T: to, A: fr.ctx.freshConst("conv", scalarSort(to))}
	}
	encFail("unsupported conversion %s -> %s", from, to)
	return Val{}
}

func (fr *Frame) slice(i *ssa.Slice, st *State, reach Term) *State {
	x := fr.value(i.X)
	var lo, hi, mx Term
	if i.Low != nil {
		lo = fr.value(i.Low).A
	} else {
		lo = "0"
	}
	switch x.K {
	case KStr:
		n := app("slen", x.A)
		if i.High != nil {
			hi = fr.value(i.High).A
		} else {
			hi = n
		}
		cond := and(le("0", lo), le(lo, hi), le(hi, n))
		fr.addObl("slice", "", implies(reach, cond), "slice bounds: "+i.String(), fr.posOf(i), fr.safetyProps(), false)
		fr.ctx.assert(implies(reach, cond), "after slice check")
		fr.vals[i] = Val{K: KStr, T: i.Type(), A: fr.v.substr(fr.ctx, x.A, lo, hi)}
		return st
	case KSlice:
		if i.High != nil {
			hi = fr.value(i.High).A
		} else {
			hi = x.Len
		}
		capT := x.Cap
		if i.Max != nil {
			mx = fr.value(i.Max).A
		}
		var cond Term
		if mx != "" {
			cond = and(le("0", lo), le(lo, hi), le(hi, mx), le(mx, capT))
		} else {
			cond = and(le("0", lo), le(lo, hi), le(hi, capT))
		}
		fr.addObl("slice", "", implies(reach, cond), "slice bounds: "+i.String(), fr.posOf(i), fr.safetyProps(), false)
		fr.ctx.assert(implies(reach, cond), "after slice check")
		nc := sub(capT, lo)
		if mx != "" {
			nc = sub(mx, lo)
		}
		// Go: slicing a nil slice yields nil; ref stays 0
		noff := ite(eq(x.A, "0"), "0", add(x.Off, lo))
		if fr.v.knownNonNil[x.A] {
			noff = add(x.Off, lo)
		}
		fr.vals[i] = Val{K: KSlice, T: i.Type(), A: x.A, Off: noff, Len: sub(hi, lo), Cap: nc}
		if sub(hi, lo) != "0" {
			fr.subsliceLemma(x, lo, add(x.Off, lo), reach)
		}
		return st
	case KArr:
		at := x.T.Underlying().(*types.Pointer).Elem().Underlying().(*types.Array)
		n := num(at.Len())
		if i.High != nil {
			hi = fr.value(i.High).A
		} else {
			hi = n
		}
		cond := and(le("0", lo), le(lo, hi), le(hi, n))
		fr.addObl("slice", "", implies(reach, cond), "slice bounds: "+i.String(), fr.posOf(i), fr.safetyProps(), false)
		fr.vals[i] = Val{K: KSlice, T: i.Type(), A: x.A, Off: lo, Len: sub(hi, lo), Cap: sub(n, lo)}
		return st
	}
	encFail("slice of kind %v", x.K)
	return nil
}

// subsliceLemma: an element of the parent view is also an element of the sub-slice view, index shifted by lo.
// A consequence of the shift axiom (both sides are a[o+k]) stated with the parent's read as trigger, so that facts
// a callee states about the sub-slice apply to reads written against the parent.
func (fr *Frame) subsliceLemma(parent Val, lo, noff Term, reach Term) {
	if parent.Off == "" || parent.Off == "0" || lo == "0" || strings.Contains(parent.Off, "!q") || strings.Contains(lo, "!q") {
		return
	}
	sl, ok := parent.T.Underlying().(*types.Slice)
	if !ok {
		return
	}
	seen := map[string]bool{}
	for _, sc := range fr.v.leafComps(sl.Elem()) {
		if seen[sc.sort] {
			continue
		}
		seen[sc.sort] = true
		key := "sublemma:" + sc.sort + ":" + parent.Off + ":" + lo + ":" + reach
		if fr.v.facts[key] {
			continue
		}
		fr.v.facts[key] = true
		pv := fr.v.shift(fr.ctx, "a!", parent.Off, sc.sort)
		cv := fr.v.shift(fr.ctx, "a!", noff, sc.sort)
		// noff is parent.Off + lo: the offset of the sub-slice of a non-nil parent (for a nil parent lo is 0 and the
		// lemma is not needed); stated for all arrays a and indices k, it is the shift axiom applied twice
		fr.ctx.assert(fmt.Sprintf("(forall ((a! %s) (k! Int)) (! (= (select %s (- k! %s)) (select %s k!)) :pattern ((select %s k!))))",
			arrSort(sc.sort), cv, lo, pv, pv), "sub-slice view (lemma)")
	}
}

func (fr *Frame) makeSlice(i *ssa.MakeSlice, st *State, reach Term) *State {
	ln := fr.value(i.Len).A
	cp := fr.value(i.Cap).A
	cond := and(le("0", ln), le(ln, cp))
	fr.addObl("makeslice", "", implies(reach, cond), "make: 0 <= len <= cap: "+i.String(), fr.posOf(i), fr.safetyProps(), false)
	fr.ctx.assert(implies(reach, and(cond, le(cp, maxLenTerm))), "after make check (allocations beyond 2^48 elements fail with out-of-memory, not modelled)")
	ref := st.nxt
	st = st.withNxt(fr.bumpNxt(st.nxt))
	fr.v.knownNonNil[ref] = true
	et := i.Type().Underlying().(*types.Slice).Elem()
	st = fr.zeroElems(st, ref, et)
	fr.vals[i] = Val{K: KSlice, T: i.Type(), A: ref, Off: "0", Len: ln, Cap: cp}
	return st
}

// shift(A, o)[k] == A[o+k]: view of a backing array from a slice's offset (keeps quantifier patterns free of arithmetic).
func (v *Verifier) shift(c *Ctx, a Term, off Term, sort string) Term {
	name := "shift_" + sort
	f := c.declareFun(name, []string{arrSort(sort), "Int"}, arrSort(sort))
	if !v.facts["shiftax:"+sort] {
		v.facts["shiftax:"+sort] = true
		c.assert(fmt.Sprintf("(forall ((a! %s) (o! Int) (k! Int)) (! (= (select (%s a! o!) k!) (select a! (+ o! k!))) :pattern ((select (%s a! o!) k!))))", arrSort(sort), f, f), "slice view")
	}
	return app(f, a, off)
}

// markOld records that a reference read from the entry heap through an old object denotes an old object
// (the entry heap is closed: objects existing at entry only point to objects existing at entry).
func (fr *Frame) markOld(x Term) {
	if fr.v.entryReads[x] {
		fr.v.oldRefs[x] = true
	}
}

type storeRec struct {
	base Term
	ref  Term
	row  Term
}

func (v *Verifier) knownNonNilGlobal(g Term) { v.nonNilGlobals[g] = true }
