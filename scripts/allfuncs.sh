#!/bin/bash
# dev helper: verify every function under contract, print only problems
cd /verif
export GOVC_LIB=/verif/lib
keys=$(./bin/govc list -repo ${REPO:-/repo} | grep "inline=false trusted=false lib=false" | awk '{print $1}')
./bin/govc func -repo ${REPO:-/repo} -timeout ${TO:-10} $keys 2>&1 | grep -v "^ok" | cut -c1-260
