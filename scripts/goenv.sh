# source this: offline Go environment for /verif tooling
export GOFLAGS=-mod=mod GOPROXY=off GOSUMDB=off GOTOOLCHAIN=local
export PATH=/opt/veriftools/go1.26.8/bin:$PATH
