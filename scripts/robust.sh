#!/bin/bash
# dev helper: robust.sh <function key> : every obligation of the function is solved stand-alone under several
# random seeds; obligations that are not decided by a majority of seeds within 5 s are listed (fragile proofs).
cd /verif; export GOVC_LIB=/verif/lib
d=$(mktemp -d /tmp/robust.XXXX)
GOVC_KEEP=1 GOVC_NOINC=1 ./bin/govc func -repo ${REPO:-/repo} -timeout 1 -dump $d "$1" > $d/log.txt 2>&1
ls $d/*.smt2 2>/dev/null | grep -v slice | while read f; do
  name=$(head -1 $f | sed 's/^; obligation //')
  case "$name" in *cover\[*) continue;; esac
  ok=0; res=""
  for sd in 0 1 2 3; do
    r=$( (z3-new -T:5 smt.random_seed=$sd $f; z3-new -T:5 smt.random_seed=$sd smt.array.extensional=false $f) 2>/dev/null | grep -c '^unsat')
    [ "$r" -ge 1 ] && ok=$((ok+1)); res="$res$r"
  done
  [ $ok -lt 3 ] && echo "FRAGILE ($ok/4 seeds: $res) $name"
done
rm -rf $d
