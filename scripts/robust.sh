#!/bin/bash
# dev helper: robust.sh <function key>... : every obligation of each function is solved stand-alone under four
# random seeds (full theory and without array extensionality); obligations not decided by at least 3 of 4 seeds
# within 5 s are listed as FRAGILE.
cd /verif; export GOVC_LIB=/verif/lib
one() {
  f=$1; name=$(head -1 $f | sed 's/^; obligation //')
  case "$name" in *cover\[*) return;; esac
  ok=0; res=""
  for sd in 0 1 2 3; do
    r=$( (z3-new -T:5 smt.random_seed=$sd $f; z3-new -T:5 smt.random_seed=$sd smt.array.extensional=false $f) 2>/dev/null | grep -c '^unsat')
    [ "$r" -ge 1 ] && ok=$((ok+1)); res="$res$r"
  done
  [ $ok -lt 3 ] && echo "FRAGILE ($ok/4 seeds: $res) $name"
}
export -f one
for key in "$@"; do
  d=$(mktemp -d /tmp/robust.XXXX)
  GOVC_KEEP=1 GOVC_NOINC=1 ./bin/govc func -repo ${REPO:-/repo} -timeout 1 -dump $d "$key" > $d/log.txt 2>&1
  ls $d/*.smt2 2>/dev/null | grep -v slice | xargs -P ${PAR:-8} -I{} bash -c 'one {}'
  rm -rf $d
done
