#!/bin/bash
# usage: overlay_test.sh <pkgdir relative to /repo> <test file> <run regex> [extra go test args]
# Runs a test file inside a package of /repo without writing into /repo (go test -overlay).
set -u
. "$(dirname "$0")/goenv.sh"
REPO=${REPO:-/repo}
pkg=$1; file=$(readlink -f "$2"); run=$3; shift 3
tmp=$(mktemp -d)
trap 'rm -rf "$tmp"' EXIT
printf '{"Replace":{"%s/%s/zz_verif_overlay_test.go":"%s"}}' "$REPO" "$pkg" "$file" | sed 's#/\./#/#' > "$tmp/ov.json"
cd "$REPO/$pkg" && go test -overlay "$tmp/ov.json" -vet=off -count=1 -timeout 120s -run "$run" "$@" .
