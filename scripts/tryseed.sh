#!/bin/bash
# usage: tryseed.sh <worktree> <i> <seedname> <prop> [more props...]
# 1. confirms the seeded change in the scratch worktree (suite passes with it, demo fails with it, demo passes without)
# 2. applies it to /repo, runs the given property checks, undoes it; stores everything under /verif/seeded/<seedname>/
set -u
wt=$1; i=$2; name=$3; shift 3
out=/verif/seeded/$name; mkdir -p $out
diff=$wt/SEED/change$i.diff; demo=$wt/SEED/change${i}_test.go
cp $diff $out/patch.diff; cp $demo $out/demo_test.go; cp $wt/SEED/change$i.md $out/notes.md 2>/dev/null
pkgdir=$(head -3 $demo | grep -o 'pkgdir: *[^ ]*' | sed 's/pkgdir: *//'); [ -z "$pkgdir" ] && pkgdir=.
cd $wt && git checkout -q -- . 
mv SEED /tmp/seed/.hold_$$ 
res_clean_demo=$( cp /tmp/seed/.hold_$$/change${i}_test.go $pkgdir/zz_seed_test.go; go test -vet=off -count=1 -run "TestSeed$i\$" ./$pkgdir 2>&1 | tail -1; rm -f $pkgdir/zz_seed_test.go)
git apply /tmp/seed/.hold_$$/change$i.diff || { echo "patch does not apply"; mv /tmp/seed/.hold_$$ SEED; exit 1; }
res_suite=$(go test -vet=off -count=1 ./... 2>&1 | grep -c "^ok")
res_mut_demo=$( cp /tmp/seed/.hold_$$/change${i}_test.go $pkgdir/zz_seed_test.go; go test -vet=off -count=1 -run "TestSeed$i\$" ./$pkgdir 2>&1 | tail -1; rm -f $pkgdir/zz_seed_test.go)
git checkout -q -- .; mv /tmp/seed/.hold_$$ SEED
echo "clean demo: $res_clean_demo | suite ok pkgs with change: $res_suite/4 | demo with change: $res_mut_demo"
# detection: the patch is applied to a scratch copy of /repo's working tree (same effect as git -C /repo apply + undo,
# but safe to run while /repo is being edited); evidence of these runs goes to a scratch directory.
scratch=$(mktemp -d /tmp/seedrun.XXXXXX)
cp -r /repo $scratch/repo
(cd $scratch/repo && git apply $out/patch.diff) || { echo "cannot apply to scratch copy"; rm -rf $scratch; exit 1; }
det=""
for p in "$@"; do
  r=$(cd /verif && REPO=$scratch/repo EVID=$scratch/evid REPL=$out/replays ./check $p quick 2>&1 | grep -E "^VIOLATION|^property|ENGINE|KNOWN" | cut -c1-300)
  echo "--- $p"; echo "$r" | head -8
  det="$det\n[$p]\n$r"
done
rm -rf $scratch
printf "%b\n" "$det" > $out/detection.txt
python3 - "$out" "$name" "$res_clean_demo" "$res_suite" "$res_mut_demo" "$@" <<'PY'
import json,sys
out,name,clean,suite,mut=sys.argv[1:6]; props=sys.argv[6:]
det=open(out+'/detection.txt').read()
meta={"seed":name,"breaks_property":props[0],"checked_against":props,"needs_to_manifest":open(out+'/notes.md').read() if __import__('os').path.exists(out+'/notes.md') else "",
 "confirmed":{"demo_on_clean_tree":clean,"suite_ok_packages_with_change":suite+"/4","demo_with_change":mut},
 "ran":["scripts/tryseed.sh: go test ./... with change; demo with/without change in scratch worktree; git -C /repo apply; ./check <prop> quick; git -C /repo checkout -- ."],
 "detected": "VIOLATION" in det, "detection": det[:3000]}
json.dump(meta,open(out+'/meta.json','w'),indent=1)
print("detected:", meta["detected"])
PY
