import json,glob,sys
th=float(sys.argv[1]) if len(sys.argv)>1 else 2.0
seen=set()
for f in sorted(glob.glob('/verif/evidence/C*.json')):
    d=json.load(open(f)); c=d['coverage']
    for s in c['slowest_obligations']:
        if s['seconds']>th and s['status']=='discharged' and s['obligation'] not in seen:
            seen.add(s['obligation'])
            print(f[-8:-5], s['seconds'], s['solver'][:44], s['obligation'])
