#!/bin/bash
# usage: mkseedwt.sh <name>   -> scratch worktree of /repo at /tmp/seed/<name> without the verification contract files
set -e
d=/tmp/seed/$1
git -C /repo worktree add --detach "$d" HEAD >/dev/null 2>&1
cd "$d"
for f in $(git ls-files | grep 'contracts_verif'); do git update-index --skip-worktree "$f"; rm -f "$f"; done
mkdir -p SEED
echo "$d"
