#!/bin/bash
# dev helper: refresh the scratch worktrees under /tmp/seed to /repo's HEAD (keeping each SEED directory) and
# re-run tryseed.sh for every seed in scripts/seedlist.txt (or those matching $1), one after the other.
cd /verif; . scripts/goenv.sh
filter=${1:-.}
wtdir() { case "$1" in *-*) echo "$1";; *) echo "$1-a";; esac; }
# worktrees that are gone (they live under /tmp and are removed at the end of a session) are recreated from the
# copies kept in /verif/seeded/<name>/
grep -E "$filter" scripts/seedlist.txt | while read wt i name props; do
  d=/tmp/seed/$(wtdir $wt)
  [ -d $d ] || scripts/mkseedwt.sh $(wtdir $wt) >/dev/null
  mkdir -p $d/SEED
  [ -f $d/SEED/change$i.diff ] || { cp seeded/$name/patch.diff $d/SEED/change$i.diff; cp seeded/$name/demo_test.go $d/SEED/change${i}_test.go; cp seeded/$name/notes.md $d/SEED/change$i.md 2>/dev/null; }
done
for wt in $(grep -E "$filter" scripts/seedlist.txt | awk '{print $1}' | sort -u); do
  d=/tmp/seed/$(wtdir $wt)
  [ -d $d/SEED ] || { echo "no SEED in $d"; continue; }
  if [ "$(git -C $d rev-parse HEAD)" != "$(git -C /repo rev-parse HEAD)" ]; then
    rm -rf /tmp/seed/.save_$wt; mv $d/SEED /tmp/seed/.save_$wt
    git -C /repo worktree remove --force $d; scripts/mkseedwt.sh $(wtdir $wt) >/dev/null; rmdir $d/SEED; mv /tmp/seed/.save_$wt $d/SEED
  fi
done
grep -E "$filter" scripts/seedlist.txt | while read wt i name props; do
  echo "=== $name"
  scripts/tryseed.sh /tmp/seed/$(wtdir $wt) $i $name $props 2>&1 | grep -E "^clean demo|^detected|^VIOLATION|does not apply|cannot apply" | cut -c1-260
done
