#!/usr/bin/env python3
# regenerates the seeded-change table of DESIGN.md §10.5 from /verif/seeded/*/meta.json
import json,glob,os,re
rows=['| seed | property | file changed | caught by (obligation) |','|---|---|---|---|']
n=c=0
for d in sorted(glob.glob('/verif/seeded/*/meta.json')):
    m=json.load(open(d)); name=m['seed']
    diff=open(os.path.dirname(d)+'/patch.diff').read()
    files=sorted(set(l[6:] for l in diff.split('\n') if l.startswith('+++ b/')))
    obs=sorted(set(re.findall(r'obligation=(.*?) status=', m['detection'])))
    n+=1
    if obs: c+=1
    caught=('`'+'`, `'.join(obs[:2])+'`'+(' …' if len(obs)>2 else '')) if obs else '**not caught**'
    rows.append('| %s | %s | %s | %s |'%(name,m['breaks_property'],', '.join(files),caught))
rows.append('')
rows.append('%d of %d seeded changes are caught.'%(c,n))
p='/verif/DESIGN.md'; s=open(p).read()
b='<!-- SEEDTABLE-BEGIN -->'; e='<!-- SEEDTABLE-END -->'
s=s[:s.index(b)+len(b)]+'\n'+'\n'.join(rows)+'\n'+s[s.index(e):]
open(p,'w').write(s)
print('%d/%d'%(c,n))
